"""cmid.py — translator from the C sources of the library's *middle layer* to Gallina.

tools/cleaf.py covers the leaves (bit-field extractors, the clock conversion, the AF bitmap).  This
script covers the functions that carry the library's decision logic and update memory through
pointers: the seven RDSPARSER_BUFFER_UPDATE instances and rdsparser_buffer_add_af (the candidate
buffer of the extended check), rdsparser_string_convert, rdsparser_string_update_single and
rdsparser_string_update (which character and level a text cell takes), and
rdsparser_parser_update_string (the per-text correction thresholds).  Each becomes one Gallina
function from the memory it reads and its scalar arguments to its return value and the memory it
writes; coq/Lemmas_Mid_*.v prove that these functions are the ones the model uses.

Memory model (this is what is MODELLED about C here, see DESIGN 17.9):
  * a struct reached through a pointer parameter is the collection of its leaf members; the member
    path a.b.c is the Coq variable a__b__c; an array member is a list (x[i] is nth, x[i] = v is upd),
    a two-dimensional one a list of lists (read only);
  * distinct member paths never alias (true of C for members of one struct object);
  * an rdsparser_string_t* is an object with three parts: <name>__size, <name>__content and
    <name>__errors (lists).  rdsparser_string_get_content / rdsparser_string_get_errors are the
    accessors of the last two and string[0] of the first; their pointer arithmetic (string + 1,
    string + 1 + size + 1) is NOT translated (the sanitizer runs of C05 cover it);
  * only the members a function mentions appear: inputs = every path read, in alphabetical order,
    followed by the scalar parameters in C order; result = (return value, every path written, in
    alphabetical order).  What is not mentioned is not touched.
  * local arrays and array parameters of known length (data[4], errors[4], input[2]) are tuples
    of scalars; a non-constant index is nth over the list of them;
  * loops: only `for (T i = a; i < b; i++)` with constant a, b and no jump in the body (unrolled).
Integer semantics as in cleaf.py: values are mathematical integers, every conversion clang's AST
shows is applied (to_u8 ...), unsigned arithmetic wraps, signed arithmetic is exact.

usage: cmid.py <repo> <out.v>
"""
import json
import os
import sys

sys.path.insert(0, os.path.dirname(os.path.abspath(__file__)))
from cleaf import Unsupported, INT_TYPES, trange, lit, BIN, CMP, load_ast, b2z  # noqa: E402
from cleaf import wrap as wrap0  # noqa: E402


def wrap(ty, e, src_ty=None):
    if src_ty is not None and tuple(src_ty) == tuple(ty):
        return e
    return wrap0(ty, e, src_ty)


# (source file, C function, Coq name, extra -D options)
FUNCS = [
    ("src/buffer.c", "rdsparser_buffer_update_pi", "m_buffer_update_pi", []),
    ("src/buffer.c", "rdsparser_buffer_update_pty", "m_buffer_update_pty", []),
    ("src/buffer.c", "rdsparser_buffer_update_tp", "m_buffer_update_tp", []),
    ("src/buffer.c", "rdsparser_buffer_update_ta", "m_buffer_update_ta", []),
    ("src/buffer.c", "rdsparser_buffer_update_ms", "m_buffer_update_ms", []),
    ("src/buffer.c", "rdsparser_buffer_update_ecc", "m_buffer_update_ecc", []),
    ("src/buffer.c", "rdsparser_buffer_update_country", "m_buffer_update_country", []),
    ("src/buffer.c", "rdsparser_buffer_add_af", "m_buffer_add_af", []),
    ("src/string.c", "rdsparser_string_convert", "m_string_convert", []),
    ("src/string.c", "rdsparser_string_update_single", "m_update_single", []),
    ("src/string.c", "rdsparser_string_update", "m_string_update", []),
    ("src/parser.c", "rdsparser_parser_update_string", "m_parser_update_string", []),
    ("src/rdsparser.c", "rdsparser_set_pi", "m_set_pi", []),
    ("src/rdsparser.c", "rdsparser_set_pty", "m_set_pty", []),
    ("src/rdsparser.c", "rdsparser_set_tp", "m_set_tp", []),
    ("src/rdsparser.c", "rdsparser_set_ta", "m_set_ta", []),
    ("src/rdsparser.c", "rdsparser_set_ms", "m_set_ms", []),
    ("src/rdsparser.c", "rdsparser_set_ecc", "m_set_ecc", []),
    ("src/rdsparser.c", "rdsparser_set_country", "m_set_country", []),
    ("src/rdsparser.c", "rdsparser_add_af", "m_add_af", []),
    ("src/group.c", "rdsparser_group_parse", "m_group_parse", []),
    ("src/group0.c", "rdsparser_group0_parse", "m_group0_parse", []),
    ("src/group10.c", "rdsparser_group10_parse", "m_group10_parse", []),
    ("src/string.c", "rdsparser_string_get_available", "m_string_get_available", []),
    ("src/string.c", "rdsparser_string_clear", "m_string_clear", []),
    ("src/group2.c", "rdsparser_group2_parse", "m_group2_parse", []),
    ("src/ecc.c", "rdsparser_ecc_lookup", "m_ecc_lookup", []),
    ("src/group1.c", "rdsparser_group1_parse", "m_group1_parse", []),
    ("src/group4.c", "rdsparser_group4_parse", "m_group4_parse", []),
    ("src/parser.c", "rdsparser_parser_process", "m_parser_process", []),
    ("src/rdsparser.c", "rdsparser_parse", "m_parse", []),
    ("src/rdsparser.c", "rdsparser_clear", "m_clear", []),
    ("src/rdsparser.c", "rdsparser_set_text_correction", "m_set_text_correction", []),
    ("src/rdsparser.c", "rdsparser_set_text_progressive", "m_set_text_progressive", []),
    ("src/rdsparser.c", "rdsparser_set_extended_check", "m_set_extended_check", []),
    ("src/rdsparser.c", "rdsparser_set_user_data", "m_set_user_data", []),
    ("src/rdsparser.c", "rdsparser_register_pi", "m_register_pi", []),
    ("src/rdsparser.c", "rdsparser_register_pty", "m_register_pty", []),
    ("src/rdsparser.c", "rdsparser_register_tp", "m_register_tp", []),
    ("src/rdsparser.c", "rdsparser_register_ta", "m_register_ta", []),
    ("src/rdsparser.c", "rdsparser_register_ms", "m_register_ms", []),
    ("src/rdsparser.c", "rdsparser_register_ecc", "m_register_ecc", []),
    ("src/rdsparser.c", "rdsparser_register_country", "m_register_country", []),
    ("src/rdsparser.c", "rdsparser_register_af", "m_register_af", []),
    ("src/rdsparser.c", "rdsparser_register_ps", "m_register_ps", []),
    ("src/rdsparser.c", "rdsparser_register_rt", "m_register_rt", []),
    ("src/rdsparser.c", "rdsparser_register_ptyn", "m_register_ptyn", []),
    ("src/rdsparser.c", "rdsparser_register_ct", "m_register_ct", []),
    ("src/string.c", "rdsparser_string_convert", "m_string_convert_n", ["-DRDSPARSER_DISABLE_UNICODE"]),
    ("src/string.c", "rdsparser_string_update_single", "m_update_single_n", ["-DRDSPARSER_DISABLE_UNICODE"]),
]
# functions that are referenced by name instead of being inlined: everything translated earlier in
# FUNCS (registered by main) and these three from GenLeaf.v (tools/cleaf.py)
#   C name -> (Coq name, pointer parameters [(name, prefix)], inputs, scalars in C order, outputs, void)
LEAF_REG = {
    "rdsparser_af_get": ("c_af_get", [("af", "")], ["buffer"], ["value"], [], False),
    "rdsparser_af_set": ("c_af_set", [("af", "")], ["buffer"], ["value"], ["buffer"], False),
    "rdsparser_string_calculate_error": ("c_calc_error", [], [], ["info_error", "data_error"], [], False),
}
_D4 = ["data_0", "data_1", "data_2", "data_3"]
for _c, _q in [("rdsparser_group_get_pi", "c_get_pi"), ("rdsparser_group_get_pty", "c_get_pty"), ("rdsparser_group_get_tp", "c_get_tp"),
               ("rdsparser_parser_get_group", "c_get_group"), ("rdsparser_parser_get_flag", "c_get_flag"),
               ("rdsparser_group0_get_ta", "c_get_ta"), ("rdsparser_group0_get_ms", "c_get_ms"),
               ("rdsparser_group0_get_ps_pos", "c_get_ps_pos"), ("rdsparser_group0a_get_af1", "c_get_af1"),
               ("rdsparser_group0a_get_af2", "c_get_af2"), ("rdsparser_group1a_get_variant", "c_get_variant"),
               ("rdsparser_group1a0_get_ecc", "c_get_ecc"), ("rdsparser_group2_get_rt_pos", "c_get_rt_pos"),
               ("rdsparser_group2_get_rt_flag", "c_get_rt_flag"), ("rdsparser_group10a_get_ptyn_pos", "c_get_ptyn_pos")]:
    LEAF_REG[_c] = (_q, [], [], list(_D4), [], False)
for _c, _q in [("rdsparser_group2_get_rt_pos", "c_get_rt_pos"), ("rdsparser_group2_get_rt_flag", "c_get_rt_flag"),
               ("rdsparser_group4a_get_mjd", "c_get_mjd"), ("rdsparser_group4a_get_hour", "c_get_hour"),
               ("rdsparser_group4a_get_minute", "c_get_minute"), ("rdsparser_group4a_get_time_offset", "c_get_offset")]:
    LEAF_REG[_c] = (_q, [], [], list(_D4), [], False)
# rdsparser_ct_init(ct, mjd, hour, minute, offset): result, then the fields of *ct in declaration order
LEAF_REG["rdsparser_ct_init"] = ("c_ct_init", [("ct", "")], [], ["mjd", "hour", "minute", "offset"],
                                 ["year", "month", "day", "hour", "minute", "offset"], False)
# every other source file a call may lead into
ALL_SOURCES = ["src/af.c", "src/buffer.c", "src/string.c", "src/parser.c", "src/rdsparser.c", "src/group.c",
               "src/group0.c", "src/group10.c", "src/ecc.c", "src/group1.c", "src/group4.c", "src/ct.c", "src/group2.c"]
# a call through a callback member appends [code; callback; arguments...] to the pseudo-member
# `events` (the parser pointer itself is not recorded); codes = the model's field_idx
CALLBACK_CODES = {"callback_pi": 0, "callback_pty": 1, "callback_tp": 2, "callback_ta": 3, "callback_ms": 4,
                  "callback_ecc": 5, "callback_country": 6, "callback_af": 7, "callback_ps": 8, "callback_rt": 9,
                  "callback_ptyn": 10, "callback_ct": 11}
# array parameters (decayed to pointers in the AST): length by parameter name
ARRAY_PARAMS = {"data": 4, "errors": 4, "input": 2}
STRING_ACCESSORS = {"rdsparser_string_get_content": "content", "rdsparser_string_get_errors": "errors"}


def qual(node):
    t = node.get("type", {})
    return t.get("desugaredQualType", t.get("qualType", ""))


def ctype(node):
    q = qual(node).replace("const ", "").replace("volatile ", "").strip()
    if q.startswith("enum "):
        return (False, 32)
    if q in INT_TYPES:
        return INT_TYPES[q]
    if q == "wchar_t":
        return (True, 32)
    raise Unsupported("type %r" % q)


def strip(node):
    while node.get("kind") in ("ImplicitCastExpr", "ParenExpr", "CStyleCastExpr") and \
            node.get("castKind", "NoOp") in ("NoOp", "LValueToRValue", "ArrayToPointerDecay", "BitCast"):
        node = node["inner"][0]
    return node


class Shared:
    def __init__(self, enums, funcs, dims, suffix, reg=None, kinds_of=None):
        self.enums, self.funcs, self.dims, self.suffix = enums, funcs, dims, suffix
        self.reg = reg or {}
        self.kinds_of = kinds_of or {}
        self.count = {}
        self.inputs = []      # member paths read before being written (function inputs)
        self.written = set()  # member paths written
        self.kinds = {}       # member path -> 1 (list) / 2 (list of lists), from the way it is used
        self.locals = set()   # prefixes of local struct variables (never inputs / outputs)
        self.garrs = {}       # file-scope constant tables used: name -> nested python list
        self.records = {}     # record name -> field names in declaration order
        self.gtables = {}     # all file-scope constant tables seen
        self.local_rec = {}   # local struct prefix -> record name
        self.depth = 0

    def fresh(self, base):
        n = self.count.get(base, 0)
        self.count[base] = n + 1
        return "%s_%d" % (base, n) if n else base


class Ctx:
    def __init__(self, sh):
        self.sh = sh
        self.env = {}      # C scalar variable -> Coq name / literal
        self.consts = {}   # C variable -> python int (known constants)
        self.arrs = {}     # C array variable -> list of Coq terms (or None when unset)
        self.ptrs = {}     # C pointer variable -> ("struct", prefix) | ("str", prefix) | ("alias", path)
        self.mem = {}      # member path -> current Coq name
        self.lines = []

    def fork(self):
        c = Ctx(self.sh)
        c.env, c.consts, c.mem = dict(self.env), dict(self.consts), dict(self.mem)
        c.arrs = {k: list(v) for k, v in self.arrs.items()}
        c.ptrs = dict(self.ptrs)
        c.lines = self.lines          # shared: lets stay in scope
        return c

    def let(self, base, term):
        v = self.sh.fresh(base)
        self.lines.append("let %s := %s in" % (v, term))
        return v

    def rd(self, path):
        if path not in self.mem and any(path.startswith(l) for l in self.sh.locals):
            return "0"            # an uninitialised member of a local struct: indeterminate, never used by correct code
        if path not in self.mem:
            if path not in self.sh.inputs:
                self.sh.inputs.append(path)
            self.sh.count.setdefault(path, 1)
            self.mem[path] = path
        return self.mem[path]

    def wr(self, path, term):
        self.sh.count.setdefault(path, 1)
        self.mem[path] = self.let(path, term)
        if not any(path.startswith(l) for l in self.sh.locals):
            self.sh.written.add(path)


def const_value(node, ctx):
    k = node["kind"]
    if k in ("IntegerLiteral", "CharacterLiteral"):
        return int(node["value"])
    if k == "ConstantExpr" and "value" in node:
        return int(node["value"])
    if k in ("ParenExpr", "ImplicitCastExpr", "CStyleCastExpr", "ConstantExpr"):
        v = const_value(node["inner"][0], ctx)
        if node.get("castKind") == "IntegralCast":
            lo, hi = trange(ctype(node))
            if not lo <= v <= hi:
                raise Unsupported("constant out of range of its type")
        return v
    if k == "DeclRefExpr":
        rd = node["referencedDecl"]
        if rd["kind"] == "EnumConstantDecl":
            return ctx.sh.enums[rd["name"]]
        if rd["name"] in ctx.consts:
            return ctx.consts[rd["name"]]
    if k == "UnaryOperator" and node["opcode"] == "-":
        return -const_value(node["inner"][0], ctx)
    raise Unsupported("not a constant: %s" % k)


def member_path(node, ctx):
    """MemberExpr chain -> (kind, path) where the base is a pointer parameter"""
    names = []
    while node["kind"] == "MemberExpr":
        names.append(node["name"])
        node = strip(node["inner"][0])
    if node["kind"] == "DeclRefExpr" and node["referencedDecl"]["name"] in ctx.ptrs:
        kind, prefix = ctx.ptrs[node["referencedDecl"]["name"]]
        if kind == "struct":
            return prefix + "__".join(reversed(names))
    raise Unsupported("member access through something that is not a struct parameter")


def lvalue(node, ctx):
    """('var', cname) | ('mem', path) | ('memelem', path, idx term) | ('arr', cname, idx int)"""
    node = strip(node)
    k = node["kind"]
    if k == "DeclRefExpr" and node["referencedDecl"]["kind"] in ("VarDecl", "ParmVarDecl"):
        return ("var", node["referencedDecl"]["name"])
    if k == "MemberExpr":
        return ("mem", member_path(node, ctx))
    if k == "ArraySubscriptExpr":
        base, idx = strip(node["inner"][0]), node["inner"][1]
        if base["kind"] == "MemberExpr":
            ctx.sh.kinds[member_path(base, ctx)] = 1
            return ("memelem", member_path(base, ctx), expr(idx, ctx))
        if base["kind"] == "ArraySubscriptExpr" and strip(base["inner"][0])["kind"] == "MemberExpr":
            path = member_path(strip(base["inner"][0]), ctx)
            ctx.sh.kinds[path] = 2
            return ("memelem2", path, expr(base["inner"][1], ctx), expr(idx, ctx))
        if base["kind"] == "DeclRefExpr":
            name = base["referencedDecl"]["name"]
            if name in ctx.ptrs:
                kind, p = ctx.ptrs[name]
                if kind == "alias":
                    ctx.sh.kinds[p] = 1
                    return ("memelem", p, expr(idx, ctx))
                if kind == "str":
                    if const_value(idx, ctx) == 0:
                        return ("mem", p + "size")
                    raise Unsupported("direct index into a string object")
            if name in ctx.arrs:
                try:
                    return ("arr", name, const_value(idx, ctx))
                except Unsupported:
                    return ("arrdyn", name, expr(idx, ctx))
        raise Unsupported("array access")
    raise Unsupported("lvalue %s" % k)


def read(node, ctx):
    lv = lvalue(node, ctx)
    if lv[0] == "var":
        if lv[1] not in ctx.env:
            raise Unsupported("read of unknown variable %s" % lv[1])
        return ctx.env[lv[1]]
    if lv[0] == "mem":
        return ctx.rd(lv[1])
    if lv[0] == "memelem":
        return "(@nth Z (Z.to_nat %s) %s 0)" % (lv[2], ctx.rd(lv[1]))
    if lv[0] == "memelem2":
        return "(@nth Z (Z.to_nat %s) (@nth (list Z) (Z.to_nat %s) %s []) 0)" % (lv[3], lv[2], ctx.rd(lv[1]))
    if lv[0] == "arr":
        a = ctx.arrs[lv[1]]
        if not 0 <= lv[2] < len(a) or a[lv[2]] is None:
            raise Unsupported("array element %s[%d] read before it is written / out of range" % (lv[1], lv[2]))
        return a[lv[2]]
    if lv[0] == "arrdyn":
        a = ctx.arrs[lv[1]]
        if any(x is None for x in a):
            raise Unsupported("dynamic index into a partly initialised array")
        return "(@nth Z (Z.to_nat %s) [%s] 0)" % (lv[2], "; ".join(a))
    raise Unsupported("read")


def write(node, ctx, term):
    lv = lvalue(node, ctx)
    if lv[0] == "var":
        ctx.sh.count.setdefault(lv[1], 1)
        ctx.env[lv[1]] = ctx.let(lv[1], term)
        ctx.consts.pop(lv[1], None)
    elif lv[0] == "mem":
        ctx.wr(lv[1], term)
    elif lv[0] == "memelem":
        ctx.wr(lv[1], "(@upd Z (Z.to_nat %s) %s %s)" % (lv[2], term, ctx.rd(lv[1])))
    elif lv[0] == "memelem2":
        m = ctx.rd(lv[1])
        ctx.wr(lv[1], "(@upd (list Z) (Z.to_nat %s) (@upd Z (Z.to_nat %s) %s (@nth (list Z) (Z.to_nat %s) %s [])) %s)" % (lv[2], lv[3], term, lv[2], m, m))
    elif lv[0] == "arr":
        ctx.arrs[lv[1]][lv[2]] = ctx.let("%s_%d_" % (lv[1], lv[2]), term)
    else:
        raise Unsupported("write through a dynamic index")


def binop(op, ty, a, b, bnode, ctx):
    if op in ("/", "%"):
        if const_value(bnode, ctx) == 0:
            raise Unsupported("division by zero")
    t = "(%s %s %s)" % (BIN[op], a, b)
    if not ty[0] and op in ("+", "-", "*", "<<"):
        t = wrap(ty, t)
    return t


def cond(node, ctx):
    k = node["kind"]
    if k in ("ParenExpr", "ConstantExpr"):
        return cond(node["inner"][0], ctx)
    if k in ("ImplicitCastExpr", "CStyleCastExpr"):
        ck = node.get("castKind")
        if ck == "IntegralToBoolean":
            return cond(node["inner"][0], ctx)
        if ck == "PointerToBoolean":
            return "(negb (%s =? 0))" % expr(node["inner"][0], ctx)
        if ck == "IntegralCast":
            sub = node["inner"][0]
            lo, hi = trange(ctype(sub))
            l2, h2 = trange(ctype(node))
            if l2 <= lo and hi <= h2 and ctype(node)[1] != 1:
                return cond(sub, ctx)
    if k == "BinaryOperator":
        op = node["opcode"]
        a, b = node["inner"]
        if op in CMP:
            return "(%s %s %s)" % (expr(a, ctx), CMP[op], expr(b, ctx))
        if op == "!=":
            return "(negb (%s =? %s))" % (expr(a, ctx), expr(b, ctx))
        if op in ("&&", "||"):
            ca = cond(a, ctx)
            before = dict(ctx.mem)
            cb = cond(b, ctx)
            if any(ctx.mem.get(p) != before.get(p) for p in ctx.sh.written if p in ctx.mem):
                raise Unsupported("side effect in the right operand of %s" % op)
            return "(%s %s %s)" % (ca, op, cb)
    if k == "UnaryOperator" and node["opcode"] == "!":
        return "(negb %s)" % cond(node["inner"][0], ctx)
    try:
        return "true" if const_value(node, ctx) != 0 else "false"
    except Unsupported:
        pass
    if k == "CallExpr" and ctype(node)[1] == 1:
        return "(negb (%s =? 0))" % expr(node, ctx)
    return "(negb (%s =? 0))" % expr(node, ctx)


def expr(node, ctx):
    k = node["kind"]
    if k in ("ParenExpr", "ConstantExpr"):
        return expr(node["inner"][0], ctx)
    if k in ("IntegerLiteral", "CharacterLiteral"):
        return lit(node["value"])
    if k == "DeclRefExpr":
        rd = node["referencedDecl"]
        if rd["kind"] == "EnumConstantDecl":
            return lit(ctx.sh.enums[rd["name"]])
        return read(node, ctx)
    if k in ("MemberExpr", "ArraySubscriptExpr"):
        # a file-scope constant table: g[i] or g[i][j]
        if k == "ArraySubscriptExpr":
            idxs = []
            b = node
            while b["kind"] == "ArraySubscriptExpr":
                idxs.append(b["inner"][1])
                b = strip(b["inner"][0])
            if b["kind"] == "DeclRefExpr" and b["referencedDecl"]["name"] in ctx.sh.gtables \
                    and b["referencedDecl"]["name"] not in ctx.arrs and b["referencedDecl"]["name"] not in ctx.env:
                gname = b["referencedDecl"]["name"]
                if gname not in ctx.sh.garrs:
                    def ev(n):
                        if n["kind"] == "InitListExpr":
                            return [ev(x) for x in n["inner"]]
                        return const_value(n, ctx)
                    ctx.sh.garrs[gname] = ev(ctx.sh.gtables[gname])
                idxs = list(reversed(idxs))
                if len(idxs) == 1:
                    return "(@nth Z (Z.to_nat %s) g_%s 0)" % (expr(idxs[0], ctx), gname)
                if len(idxs) == 2:
                    return "(@nth Z (Z.to_nat %s) (@nth (list Z) (Z.to_nat %s) g_%s []) 0)" % (expr(idxs[1], ctx), expr(idxs[0], ctx), gname)
                raise Unsupported("table with more than two dimensions")
        # two-dimensional member: a[i][j]
        if k == "ArraySubscriptExpr":
            base = strip(node["inner"][0])
            if base["kind"] == "ArraySubscriptExpr" and strip(base["inner"][0])["kind"] == "MemberExpr":
                path = member_path(strip(base["inner"][0]), ctx)
                ctx.sh.kinds[path] = 2
                return "(@nth Z (Z.to_nat %s) (@nth (list Z) (Z.to_nat %s) %s []) 0)" % (
                    expr(node["inner"][1], ctx), expr(base["inner"][1], ctx), ctx.rd(path))
        return read(node, ctx)
    if k in ("ImplicitCastExpr", "CStyleCastExpr"):
        ck = node.get("castKind")
        sub = node["inner"][0]
        if ck in ("LValueToRValue", "NoOp"):
            return expr(sub, ctx)
        if ck == "IntegralCast":
            return wrap(ctype(node), expr(sub, ctx), ctype(sub))
        if ck == "IntegralToBoolean":
            return b2z(cond(sub, ctx))
        raise Unsupported("cast %s" % ck)
    if k == "UnaryOperator":
        op = node["opcode"]
        sub = node["inner"][0]
        if op == "-":
            t = "(- %s)" % expr(sub, ctx)
            return wrap(ctype(node), t) if not ctype(node)[0] else t
        if op == "!":
            return b2z(cond(node, ctx))
        if op == "~":
            return wrap(ctype(node), "(Z.lnot %s)" % expr(sub, ctx))
        if op == "+":
            return expr(sub, ctx)
        raise Unsupported("unary %s in an expression" % op)
    if k == "BinaryOperator":
        op = node["opcode"]
        a, b = node["inner"]
        if op in BIN:
            return binop(op, ctype(node), expr(a, ctx), expr(b, ctx), b, ctx)
        if op in CMP or op in ("!=", "&&", "||"):
            return b2z(cond(node, ctx))
        raise Unsupported("binary %s in an expression" % op)
    if k == "ConditionalOperator":
        c, a, b = node["inner"]
        cc = cond(c, ctx)
        before = dict(ctx.mem)
        ta, tb = expr(a, ctx), expr(b, ctx)
        if ctx.mem != before and any(ctx.mem.get(p) != before.get(p) for p in ctx.sh.written):
            raise Unsupported("side effect in an operand of ?:")
        return "(if %s then %s else %s)" % (cc, ta, tb)
    if k == "CallExpr":
        r = call(node, ctx)
        if r is None:
            raise Unsupported("value of a void call")
        return r
    raise Unsupported("expression %s" % k)


def pointer_arg(a, ctx):
    """what a pointer argument designates: ('arr', terms) | ('struct', prefix) | ('str', prefix)"""
    b = strip(a)
    if b["kind"] == "UnaryOperator" and b["opcode"] == "&":
        b = strip(b["inner"][0])
        if b["kind"] == "MemberExpr":
            return ("struct", member_path(b, ctx) + "__")
        if b["kind"] == "DeclRefExpr" and ctx.ptrs.get(b["referencedDecl"]["name"], ("", ""))[0] == "struct":
            return ctx.ptrs[b["referencedDecl"]["name"]]
        raise Unsupported("address of something that is not a member")
    if b["kind"] == "DeclRefExpr":
        name = b["referencedDecl"]["name"]
        if name in ctx.arrs:
            return ("arrref", name)
        if name in ctx.ptrs and ctx.ptrs[name][0] in ("struct", "str"):
            return ctx.ptrs[name]
    if b["kind"] == "ArraySubscriptExpr" and strip(b["inner"][0])["kind"] == "MemberExpr" \
            and ("rdsparser_string_t" in a.get("type", {}).get("qualType", "") or "string" in qual(a)):
        # one of an array of string objects (rds->rt[flag]): index 0 or 1
        path = member_path(strip(b["inner"][0]), ctx)
        try:
            i = const_value(b["inner"][1], ctx)
            return ("str", "%s__%d__" % (path, i))
        except Unsupported:
            return ("strsel", "%s__0__" % path, "%s__1__" % path, "(%s =? 0)" % expr(b["inner"][1], ctx))
    if b["kind"] == "MemberExpr":
        # an array member decaying to a pointer: a string object stored in the struct
        path = member_path(b, ctx)
        if "rdsparser_string_t" in a.get("type", {}).get("qualType", "") or "string" in qual(a):
            return ("str", path + "__")
    raise Unsupported("pointer argument")


def call_by_name(reg, fn, args, ctx):
    coq, ptrs, ins, scal, outs, void = reg
    params = [c for c in fn.get("inner", []) if c.get("kind") == "ParmVarDecl"]
    if len(args) != len(params):
        raise Unsupported("argument count")
    pmap = {}       # callee prefix -> caller prefix
    sc = {}
    for p, a in zip(params, args):
        name = p["name"]
        if "*" in qual(p):
            if name in ARRAY_PARAMS:
                what = pointer_arg(a, ctx)
                if what[0] != "arrref":
                    raise Unsupported("array argument")
                for i, t in enumerate(ctx.arrs[what[1]]):
                    if t is None:
                        raise Unsupported("array argument not initialised")
                    sc["%s_%d" % (name, i)] = t
            else:
                what = pointer_arg(a, ctx)
                pre = dict(ptrs).get(name)
                if pre is None:
                    raise Unsupported("pointer parameter %s of %s" % (name, coq))
                pmap[pre] = (what[1], what[2], what[3]) if what[0] == "strsel" else what[1]
        else:
            sc[name] = expr(a, ctx)

    sel = {}        # callee prefix -> (prefix0, prefix1, condition): the object is chosen at run time

    def to_caller(path):
        if path == "events":
            return "events"
        best = None
        for pre in pmap:
            if path.startswith(pre) and (best is None or len(pre) > len(best)):
                best = pre
        if best is None:
            raise Unsupported("member %s of %s has no owner" % (path, coq))
        if isinstance(pmap[best], tuple):
            sel[best] = pmap[best]
            return ("sel", pmap[best][0] + path[len(best):], pmap[best][1] + path[len(best):], pmap[best][2])
        return pmap[best] + path[len(best):]

    def rd_in(q):
        cp = to_caller(q)
        if isinstance(cp, tuple):
            return "(if %s then %s else %s)" % (cp[3], ctx.rd(cp[1]), ctx.rd(cp[2]))
        return ctx.rd(cp)

    for q in ins + outs:
        cp = to_caller(q)
        if q in ctx.sh.kinds_of.get(coq, {}):
            for c in (cp[1:3] if isinstance(cp, tuple) else [cp]):
                ctx.sh.kinds[c] = ctx.sh.kinds_of[coq][q]
    actual = [rd_in(q) for q in ins] + [sc[x] for x in scal]
    app = "(%s %s)" % (coq, " ".join(actual))
    if not outs:
        return None if void else ctx.let("r", app)
    names = [ctx.sh.fresh("r")] + [ctx.sh.fresh(q.replace("string__", "str_")) for q in outs]
    ctx.lines.append("let '(%s) := %s in" % (", ".join(names), app))
    for q, n in zip(outs, names[1:]):
        cp = to_caller(q)
        if isinstance(cp, tuple):
            old0, old1 = ctx.rd(cp[1]), ctx.rd(cp[2])
            ctx.wr(cp[1], "(if %s then %s else %s)" % (cp[3], n, old0))
            ctx.wr(cp[2], "(if %s then %s else %s)" % (cp[3], old1, n))
        else:
            ctx.sh.count.setdefault(cp, 1)
            ctx.mem[cp] = n
            if not any(cp.startswith(l) for l in ctx.sh.locals):
                ctx.sh.written.add(cp)
    return None if void else names[0]


def call(node, ctx):
    callee = strip(node["inner"][0])
    while callee["kind"] == "ImplicitCastExpr":
        callee = callee["inner"][0]
    args = node["inner"][1:]
    if callee["kind"] == "MemberExpr":
        # a callback: an event
        path = member_path(callee, ctx)
        code = CALLBACK_CODES.get(path.split("__")[-1])
        if code is None:
            raise Unsupported("call through member %s" % path)
        vals = []
        for a in args:
            b = strip(a)
            if b["kind"] == "DeclRefExpr" and b["referencedDecl"]["name"] in ctx.ptrs:
                continue            # the parser itself
            if b["kind"] == "UnaryOperator" and b["opcode"] == "&":
                kind, pre = pointer_arg(a, ctx)
                if pre in ctx.sh.local_rec:
                    # a pointer to a local struct: the callback sees its members
                    vals += [ctx.rd(pre + f) for f in ctx.sh.records[ctx.sh.local_rec[pre]]]
                    continue
            vals.append(expr(a, ctx))
        ctx.sh.kinds["events"] = 2
        ctx.wr("events", "(%s ++ [[%s]])" % (ctx.rd("events"), "; ".join([str(code), ctx.rd(path)] + vals)))
        return None
    if callee["kind"] != "DeclRefExpr":
        raise Unsupported("indirect call")
    cname = callee["referencedDecl"]["name"]
    reg = ctx.sh.reg.get(cname)
    if reg is not None:
        return call_by_name(reg, ctx.sh.funcs.get(cname), args, ctx)
    if cname not in ctx.sh.funcs:
        raise Unsupported("call of %s, which is not defined in the translated sources" % cname)
    if ctx.sh.depth > 8:
        raise Unsupported("call depth")
    fn = ctx.sh.funcs[cname]
    params = [c for c in fn.get("inner", []) if c.get("kind") == "ParmVarDecl"]
    body = [c for c in fn["inner"] if c.get("kind") == "CompoundStmt"][0]
    if len(args) != len(params):
        raise Unsupported("argument count")
    sub = Ctx(ctx.sh)
    sub.lines, sub.mem = ctx.lines, ctx.mem
    arr_back = {}
    for p, a in zip(params, args):
        if "*" in qual(p):
            what = pointer_arg(a, ctx)
            if what[0] == "arrref":
                sub.arrs[p["name"]] = ctx.arrs[what[1]]     # shared list: writes are visible
            else:
                sub.ptrs[p["name"]] = what
        else:
            sub.env[p["name"]] = ctx.let(p["name"], wrap(ctype(p), expr(a, ctx), ctype(a)))
    inner = body.get("inner", [])
    void = fn["type"]["qualType"].split("(")[0].strip() == "void"
    ctx.sh.depth += 1
    try:
        if not may_return(inner[:-1] if not void else inner) and (void or (inner and inner[-1]["kind"] == "ReturnStmt")):
            straight(inner if void else inner[:-1], sub)
            ctx.mem = sub.mem
            if void:
                return None
            return ctx.let("r", expr(inner[-1]["inner"][0], sub))
        # several returns: the body becomes one term yielding (return value, written members);
        # a dry run finds out which members it writes
        dry_sh_written = set(ctx.sh.written)
        ctx.sh.written = set()
        d = sub.fork()
        d.lines = []
        stmts(inner, d, [], void)
        wr = sorted(ctx.sh.written)
        ctx.sh.written = dry_sh_written | set(wr)
        s2 = sub.fork()
        s2.lines = []
        for p in wr:
            s2.rd(p)      # make sure every result component has a value on every path
            ctx.rd(p)
        term = stmts(inner, s2, wr, void)
        names = [ctx.sh.fresh("r")] + [ctx.sh.fresh(p) for p in wr]
        for p in wr:
            ctx.sh.count.setdefault(p, 1)
        if wr:
            ctx.lines.append("let '(%s) := %s in" % (", ".join(names), term))
        else:
            ctx.lines.append("let %s := %s in" % (names[0], term))
        for p, n in zip(wr, names[1:]):
            ctx.mem[p] = n
        return None if void else names[0]
    finally:
        ctx.sh.depth -= 1


def assign(node, ctx):
    k = node["kind"]
    if k == "ParenExpr":
        return assign(node["inner"][0], ctx)
    if k == "BinaryOperator" and node["opcode"] == "=":
        lhs, rhs = node["inner"]
        write(lhs, ctx, expr(rhs, ctx))
        return
    if k == "CompoundAssignOperator":
        op = node["opcode"][:-1]
        lhs, rhs = node["inner"]
        lty = ctype(lhs)
        cty = node.get("computeResultType", {})
        q = cty.get("desugaredQualType", cty.get("qualType", "int")).replace("const ", "")
        comp = (False, 32) if q.startswith("enum ") else INT_TYPES.get(q)
        if comp is None:
            raise Unsupported("compound assignment in type %r" % q)
        cur = wrap(comp, read(lhs, ctx), lty)
        val = binop(op, comp, cur, expr(rhs, ctx), rhs, ctx)
        write(lhs, ctx, wrap(lty, val, comp))
        return
    if k == "UnaryOperator" and node["opcode"] in ("++", "--"):
        sub = node["inner"][0]
        lty = ctype(sub)
        comp = (True, 32) if trange(lty)[1] <= (1 << 31) - 1 and lty != (False, 32) else lty
        cur = wrap(comp, read(sub, ctx), lty)
        val = binop("+" if node["opcode"] == "++" else "-", comp, cur, "1", {"kind": "IntegerLiteral", "value": "1"}, ctx)
        write(sub, ctx, wrap(lty, val, comp))
        return
    if k == "CallExpr":
        call(node, ctx)
        return
    if k in ("ImplicitCastExpr", "CStyleCastExpr") and node.get("castKind") == "ToVoid":
        return assign(node["inner"][0], ctx)
    raise Unsupported("statement expression %s" % k)


def may_return(nodes):
    for n in nodes:
        if not isinstance(n, dict):
            continue
        if n.get("kind") in ("ReturnStmt", "BreakStmt", "ContinueStmt", "GotoStmt"):
            return True
        if may_return([c for c in n.get("inner", []) if isinstance(c, dict) and c.get("kind", "").endswith("Stmt")]):
            return True
    return False


def decl(d, ctx):
    if d["kind"] != "VarDecl":
        raise Unsupported("declaration %s" % d["kind"])
    q = qual(d)
    name = d["name"]
    init = d.get("inner", [None])[0] if d.get("inner") else None
    if "[" in q:
        n = int(q[q.index("[") + 1:q.index("]")])
        if init is None:
            ctx.arrs[name] = [None] * n
            return
        if init["kind"] == "InitListExpr":
            vals = [lit(const_value(x, ctx)) for x in init["inner"]]
            if len(vals) != n:
                raise Unsupported("partial array initialiser")
            ctx.arrs[name] = vals
            return
        raise Unsupported("array initialiser")
    rec = q.replace("const ", "").replace("struct ", "").strip()
    if rec.endswith("_t") and rec[:-2] in ctx.sh.records:
        rec = rec[:-2]
    if init is None and rec in ctx.sh.records:
        ctx.ptrs[name] = ("struct", name + "__")
        ctx.sh.locals.add(name + "__")
        ctx.sh.local_rec[name + "__"] = rec
        return
    if "*" in q:
        c = strip(init) if init else None
        if c and c["kind"] == "CallExpr":
            cal = strip(c["inner"][0])
            while cal["kind"] == "ImplicitCastExpr":
                cal = cal["inner"][0]
            fname = cal.get("referencedDecl", {}).get("name")
            if fname in STRING_ACCESSORS:
                what = pointer_arg(c["inner"][1], ctx)
                if what[0] == "str":
                    ctx.ptrs[name] = ("alias", what[1] + STRING_ACCESSORS[fname])
                    return
        if init is not None:
            # a local pointer to a sub-object (T *p = &s->a.b;) is another name for it
            what = pointer_arg(init, ctx)
            if what[0] in ("struct", "str"):
                ctx.ptrs[name] = what
                return
        raise Unsupported("pointer variable %s" % name)
    if init is None:
        ctx.env[name] = "0"       # indeterminate: correct code assigns before use
        return
    try:
        if "const" in d.get("type", {}).get("qualType", ""):
            ctx.consts[name] = const_value(init, ctx)
    except Unsupported:
        pass
    ctx.sh.count.setdefault(name, 0)
    ctx.env[name] = ctx.let(name, expr(init, ctx))


def merge(ctx, cv, t, e, saved):
    for name in sorted(set(t.env) | set(e.env)):
        if name not in saved.env:
            continue
        a, b = t.env.get(name), e.env.get(name)
        if a != b:
            if a is None or b is None:
                raise Unsupported("variable %s set in one branch only" % name)
            ctx.env[name] = ctx.let(name, "(if %s then %s else %s)" % (cv, a, b))
    for name in saved.arrs:
        for i in range(len(saved.arrs[name])):
            a, b = t.arrs[name][i], e.arrs[name][i]
            if a != b:
                if a is None or b is None:
                    raise Unsupported("array element set in one branch only")
                ctx.arrs[name][i] = ctx.let("%s_%d_" % (name, i), "(if %s then %s else %s)" % (cv, a, b))
    for p in sorted(set(t.mem) | set(e.mem)):
        a = t.mem.get(p) or ctx.rd(p)
        b = e.mem.get(p) or ctx.rd(p)
        if a != b:
            ctx.mem[p] = ctx.let(p, "(if %s then %s else %s)" % (cv, a, b))
        else:
            ctx.mem[p] = a


def loop_shape(st, ctx):
    """(var, lo term, hi term, lo const or None, hi const or None, body) of `for (T i = lo; i < hi; i++) body`"""
    init, _cv, cnd, inc, body = st["inner"]
    try:
        d = init["inner"][0]
        var = d["name"]
        c = cnd
        if c["kind"] != "BinaryOperator" or c["opcode"] != "<":
            raise Unsupported("loop condition")
        lhs = strip(c["inner"][0])
        while lhs["kind"] in ("ImplicitCastExpr",):
            lhs = strip(lhs["inner"][0])
        if lhs["kind"] != "DeclRefExpr" or lhs["referencedDecl"]["name"] != var:
            raise Unsupported("loop condition")
        if inc["kind"] != "UnaryOperator" or inc["opcode"] != "++" or strip(inc["inner"][0])["referencedDecl"]["name"] != var:
            raise Unsupported("loop increment")
        lo_node, hi_node = d["inner"][0], c["inner"][1]
    except (KeyError, IndexError, TypeError):
        raise Unsupported("loop shape")

    def cv(n):
        try:
            return const_value(n, ctx)
        except Unsupported:
            return None
    return var, lo_node, hi_node, cv(lo_node), cv(hi_node), body


def assigned_in(node, acc):
    """C variables assigned somewhere in a statement (syntactically)"""
    k = node.get("kind")
    if (k == "BinaryOperator" and node.get("opcode") == "=") or k == "CompoundAssignOperator" or \
            (k == "UnaryOperator" and node.get("opcode") in ("++", "--")):
        t = strip(node["inner"][0])
        if t.get("kind") == "DeclRefExpr":
            acc.add(t["referencedDecl"]["name"])
    for c in node.get("inner", []):
        if isinstance(c, dict):
            assigned_in(c, acc)


def fold_loop(st, ctx):
    """a loop with non-constant bounds: fold_left over the index range.  The state is
    (done, return value, the variables and members the body assigns); an iteration after a
    `return` inside the body leaves the state alone.  Returns (done name or None, value name)."""
    var, lo_node, hi_node, _l, _h, body = loop_shape(st, ctx)
    lo_t, hi_t = expr(lo_node, ctx), expr(hi_node, ctx)
    jumps = may_return([body])
    # which variables / members does the body write?  (dry run)
    saved_written = set(ctx.sh.written)
    ctx.sh.written = set()
    d = ctx.fork()
    d.lines = []
    d.env[var] = "i_dry"
    stmts([body], d, [], True, k_ret=lambda c, r: "0", k_end=lambda c: "0")
    paths = sorted(ctx.sh.written)
    ctx.sh.written = saved_written | set(paths)
    av = set()
    assigned_in(body, av)
    vars_ = sorted(v for v in av if v in ctx.env and v != var)
    for p_ in paths:
        ctx.rd(p_)
    # the lambda's parameters
    iv = ctx.sh.fresh("i")
    st_names = [ctx.sh.fresh("done"), ctx.sh.fresh("rv")] + [ctx.sh.fresh(v) for v in vars_] + [ctx.sh.fresh(p_) for p_ in paths]
    b = ctx.fork()
    b.lines = []
    b.env[var] = iv
    for v, n in zip(vars_, st_names[2:2 + len(vars_)]):
        b.env[v] = n
        b.consts.pop(v, None)
    for p_, n in zip(paths, st_names[2 + len(vars_):]):
        b.mem[p_] = n

    def vec(c):
        return ", ".join([c.env[v] for v in vars_] + [c.mem.get(p_) or c.rd(p_) for p_ in paths])

    def tup(*xs):
        xs = [x for x in xs if x != ""]
        return "(" + ", ".join(xs) + ")"
    body_term = stmts([body], b, [], True, k_ret=lambda c, r: tup("1", r, vec(c)), k_end=lambda c: tup("0", "0", vec(c)))
    init_vec = ", ".join([ctx.env[v] for v in vars_] + [ctx.rd(p_) for p_ in paths])
    pat = tup(*st_names)
    out_names = [ctx.sh.fresh("done"), ctx.sh.fresh("rv")] + [ctx.sh.fresh(v) for v in vars_] + [ctx.sh.fresh(p_) for p_ in paths]
    ctx.lines.append("let '%s := fold_left (fun '%s %s => if %s =? 1 then %s else\n  %s)\n  (map (fun k_ => %s + Z.of_nat k_) (seq 0 (Z.to_nat (%s - %s)))) %s in" % (
        tup(*out_names), pat, iv, st_names[0], pat, body_term, lo_t, hi_t, lo_t, tup("0", "0", init_vec)))
    for v, n in zip(vars_, out_names[2:2 + len(vars_)]):
        ctx.env[v] = n
        ctx.consts.pop(v, None)
    for p_, n in zip(paths, out_names[2 + len(vars_):]):
        ctx.mem[p_] = n
    return (out_names[0] if jumps else None), out_names[1]


def for_loop(st, ctx, body_fn):
    var, lo_node, hi_node, lo, hi, body = loop_shape(st, ctx)
    if lo is None or hi is None:
        if may_return([body]):
            raise Unsupported("loop with a jump where no jump can be handled")
        fold_loop(st, ctx)
        return
    if may_return([body]) or hi - lo > 64:
        raise Unsupported("loop with a jump or too many iterations")
    for v in range(lo, hi):
        ctx.consts[var] = v
        ctx.env[var] = lit(v)
        body_fn([body], ctx)
    ctx.consts.pop(var, None)
    ctx.env.pop(var, None)


def desugar_switch(st):
    """switch (e) { case K: ...; break; ... [default: ...;] } without fall-through -> if / else if chain"""
    cnd, body = st["inner"][0], st["inner"][-1]
    if body.get("kind") != "CompoundStmt":
        raise Unsupported("switch body")
    cases, cur = [], None
    for n in body.get("inner", []):
        k = n.get("kind")
        if k in ("CaseStmt", "DefaultStmt"):
            if cur is not None:
                raise Unsupported("switch case falling through")
            inner = n["inner"]
            label = inner[0] if k == "CaseStmt" else None
            sub = inner[-1]
            if sub.get("kind") in ("CaseStmt", "DefaultStmt"):
                raise Unsupported("stacked case labels")
            cur = [label, [sub]]
        elif k == "BreakStmt":
            if cur is None:
                raise Unsupported("break outside a case")
            cases.append(cur)
            cur = None
        else:
            if cur is None:
                raise Unsupported("statement outside a case")
            cur[1].append(n)
    if cur is not None:
        cases.append(cur)       # the last case may omit its break
    for _l, b in cases:
        if may_return(b):
            raise Unsupported("jump inside a switch case")
    default = [b for l, b in cases if l is None]
    chain = {"kind": "CompoundStmt", "inner": default[0]} if default else {"kind": "NullStmt"}
    for label, b in reversed([c for c in cases if c[0] is not None]):
        test = {"kind": "BinaryOperator", "opcode": "==", "type": {"qualType": "int"}, "inner": [cnd, label]}
        chain = {"kind": "IfStmt", "inner": [test, {"kind": "CompoundStmt", "inner": b}, chain]}
    return chain


def straight(nodes, ctx):
    nodes = [desugar_switch(n) if n.get("kind") == "SwitchStmt" else n for n in nodes]
    for st in nodes:
        k = st["kind"]
        if k == "CompoundStmt":
            straight(st.get("inner", []), ctx)
        elif k == "NullStmt":
            pass
        elif k == "DeclStmt":
            for d in st["inner"]:
                decl(d, ctx)
        elif k == "ForStmt":
            for_loop(st, ctx, straight)
        elif k == "IfStmt":
            inner = st["inner"]
            cv = ctx.let("c", cond(inner[0], ctx))
            saved = ctx.fork()
            t = ctx.fork()
            straight([inner[1]], t)
            e = ctx.fork()
            straight([inner[2]] if len(inner) > 2 else [], e)
            merge(ctx, cv, t, e, saved)
        else:
            assign(st, ctx)


def result(ctx, ret, outs, void):
    comps = ([] if void and outs else [ret]) + [ctx.mem.get(p) or ctx.rd(p) for p in outs]
    if void and not outs:
        comps = ["0"]
    if void and outs:
        comps = ["0"] + comps
    return comps[0] if len(comps) == 1 else "(%s)" % ", ".join(comps)


def stmts(nodes, ctx, outs, void=False, k_ret=None, k_end=None):
    """a statement list as one term.  k_ret(ctx, value term) builds the term of a `return`,
    k_end(ctx) the term of falling off the end (defaults: the function's result tuple)"""
    if k_ret is None:
        k_ret = lambda c, r: result(c, r, outs, void)           # noqa: E731
    if k_end is None:
        def k_end(c):
            if void:
                return result(c, "0", outs, void)
            raise Unsupported("control reaches the end of a non-void function")

    def flush(body):
        out = body
        for l in reversed(ctx.lines):
            out = l + "\n  " + out
        ctx.lines = []
        return out

    nodes = [desugar_switch(n) if n.get("kind") == "SwitchStmt" else n for n in nodes]
    for i, st in enumerate(nodes):
        k = st["kind"]
        if k == "CompoundStmt":
            return stmts(st.get("inner", []) + nodes[i + 1:], ctx, outs, void, k_ret, k_end)
        if k == "NullStmt":
            continue
        if k == "DeclStmt":
            for d in st["inner"]:
                decl(d, ctx)
            continue
        if k == "ForStmt":
            var, lo_node, hi_node, lo, hi, body = loop_shape(st, ctx)
            if lo is not None and hi is not None and not may_return([body]):
                for_loop(st, ctx, straight)
                continue
            done, rv = fold_loop(st, ctx)
            if done is None:
                continue
            rest = nodes[i + 1:]
            pending = ctx.lines
            t = ctx.fork()
            t.lines = []
            then_term = k_ret(t, rv)
            for l in reversed(t.lines):
                then_term = l + "\n  " + then_term
            e = ctx.fork()
            e.lines = []
            else_term = stmts(rest, e, outs, void, k_ret, k_end)
            ctx.lines = pending
            return flush("(if %s =? 1\n   then %s\n   else %s)" % (done, then_term, else_term))
        if k == "ReturnStmt":
            r = expr(st["inner"][0], ctx) if st.get("inner") else "0"
            return flush(k_ret(ctx, r))
        if k == "IfStmt":
            inner = st["inner"]
            cv = ctx.let("c", cond(inner[0], ctx))
            rest = nodes[i + 1:]
            then_b = [inner[1]]
            else_b = [inner[2]] if len(inner) > 2 else []
            if not may_return(then_b) and not may_return(else_b):
                saved = ctx.fork()
                t = ctx.fork()
                straight(then_b, t)
                e = ctx.fork()
                straight(else_b, e)
                merge(ctx, cv, t, e, saved)
                continue
            pending = ctx.lines
            t = ctx.fork()
            t.lines = []
            then_term = stmts(then_b + rest, t, outs, void, k_ret, k_end)
            e = ctx.fork()
            e.lines = []
            else_term = stmts(else_b + rest, e, outs, void, k_ret, k_end)
            ctx.lines = pending
            return flush("(if %s\n   then %s\n   else %s)" % (cv, then_term, else_term))
        assign(st, ctx)
    return flush(k_end(ctx))


# ---------------------------------------------------------------- driver
def collect(tu, enums, funcs, dims, records=None, gtables=None):
    for n in tu.get("inner", []):
        if gtables is not None and n.get("kind") == "VarDecl" and n.get("inner") and n["inner"][0].get("kind") == "InitListExpr" \
                and "const" in n.get("type", {}).get("qualType", ""):
            gtables[n["name"]] = n["inner"][0]

    def walk(n):
        k = n.get("kind")
        if records is not None and k == "RecordDecl" and n.get("name") and n.get("completeDefinition"):
            records[n["name"]] = [c["name"] for c in n.get("inner", []) if c.get("kind") == "FieldDecl"]
        if k == "EnumDecl":
            nxt = 0
            for c in n.get("inner", []):
                if c.get("kind") != "EnumConstantDecl":
                    continue
                v = nxt
                for x in c.get("inner", []):
                    if x.get("kind") == "ConstantExpr" and "value" in x:
                        v = int(x["value"])
                    elif x.get("kind") == "IntegerLiteral":
                        v = int(x["value"])
                enums[c["name"]] = v
                nxt = v + 1
        if k == "RecordDecl" and n.get("completeDefinition"):
            for c in n.get("inner", []):
                if c.get("kind") == "FieldDecl":
                    dims[c["name"]] = c.get("type", {}).get("qualType", "").count("[")
        if k == "FunctionDecl" and any(c.get("kind") == "CompoundStmt" for c in n.get("inner", [])):
            funcs.setdefault(n["name"], n)
        for c in n.get("inner", []):
            if isinstance(c, dict):
                walk(c)
    walk(tu)


def translate(fn, sh):
    params = [c for c in fn.get("inner", []) if c.get("kind") == "ParmVarDecl"]
    body = [c for c in fn["inner"] if c.get("kind") == "CompoundStmt"][0]
    ctx = Ctx(sh)
    scal = []
    nstruct = sum(1 for p in params if "*" in qual(p) and p["name"] not in ARRAY_PARAMS)
    for p in params:
        name = p["name"]
        if "(*)" in qual(p) or qual(p).replace("const ", "").strip() == "void *":
            # a callback or the opaque user-data pointer: a token (named apart from the member it is stored in)
            ctx.env[name] = name + "_arg"
            sh.count[name + "_arg"] = 1
            scal.append(name + "_arg")
            continue
        if "*" in qual(p):
            if name in ARRAY_PARAMS:
                ctx.arrs[name] = ["%s_%d" % (name, i) for i in range(ARRAY_PARAMS[name])]
                for x in ctx.arrs[name]:
                    sh.count[x] = 1
                scal += ctx.arrs[name]
            elif "rdsparser_string_t" in p["type"].get("qualType", ""):
                ctx.ptrs[name] = ("str", name + "__")
            else:
                ctx.ptrs[name] = ("struct", "" if nstruct == 1 or name in ("rds", "context", "buffer") else name + "__")
        else:
            ctx.env[name] = name
            sh.count[name] = 1
            scal.append(name)
    void = fn["type"]["qualType"].split("(")[0].strip() == "void"
    inner = body.get("inner", [])
    ctx0_ptrs = dict(ctx.ptrs)
    # dry run: which members are written
    d = ctx.fork()
    d.lines = []
    stmts(inner, d, [], void)
    outs = sorted(sh.written)
    count0 = dict(sh.count)
    ctx.lines = []
    for p in outs:
        ctx.rd(p)
    term = stmts(inner, ctx, outs, void)
    ins = sorted(sh.inputs)
    ptrs = [(n, pre) for n, (k, pre) in ctx0_ptrs.items()]
    return ins, scal, outs, term, ptrs, void


def kind_of(path, kinds):
    return {0: "Z", 1: "list Z", 2: "list (list Z)"}[kinds.get(path, 0)]


HEADER = """(* GenMid.v — GENERATED by tools/cmid.py from the C sources; do not edit.
   The middle layer of the library (candidate buffer, text cell update, threshold gate), one
   Gallina function per C function, from clang's typed AST.  Inputs: the struct members the
   function reads (alphabetical), then its scalar parameters; result: (return value, members
   written (alphabetical)).  Memory model: see tools/cmid.py.
   Source tree: %s *)
Require Import Base GenLeaf.
Local Open Scope Z_scope.

"""


def main():
    repo, out = sys.argv[1], sys.argv[2]
    text = HEADER % repo
    errors = []
    cache = {}
    regs = {}
    emitted_tables = set()
    status = {"translated": [], "unsupported": {}}
    kinds_of = {"c_af_get": {"buffer": 1}, "c_af_set": {"buffer": 1}}
    for src, cname, coqname, defs in FUNCS:
        try:
            key = tuple(defs)
            if key not in cache:
                enums, funcs, dims, records, gtables = {}, {}, {}, {}, {}
                for s in ALL_SOURCES:
                    try:
                        collect(load_ast(repo, s, defs), enums, funcs, dims, records, gtables)
                    except Unsupported:
                        pass          # functions that need this file will be reported one by one
                cache[key] = (enums, funcs, dims, records, gtables)
            enums, funcs, dims, records, gtables = cache[key]
            # the function of THIS file wins over a static namesake elsewhere
            own = {}
            collect(load_ast(repo, src, defs), {}, own, {})
            fs = dict(funcs)
            fs.update(own)
            if cname not in fs:
                raise Unsupported("function %s not found in %s" % (cname, src))
            reg = regs.setdefault(key, dict(LEAF_REG))
            sh = Shared(enums, fs, dims, "_n" if defs else "", reg, kinds_of)
            sh.records, sh.gtables = records, gtables
            ins, scal, outs, term, ptrs, void = translate(fs[cname], sh)
            for gname, val in sh.garrs.items():
                if gname not in emitted_tables:
                    emitted_tables.add(gname)

                    def show(v):
                        return "[" + "; ".join(show(x) for x in v) + "]" if isinstance(v, list) else lit(v)
                    ty = "list (list Z)" if val and isinstance(val[0], list) else "list Z"
                    text += "(* file-scope constant table %s *)\nDefinition g_%s : %s :=\n  %s.\n\n" % (gname, gname, ty, show(val))
            reg[cname] = (coqname, ptrs, ins, scal, outs, void)
            kinds_of[coqname] = {q: sh.kinds[q] for q in ins + outs if q in sh.kinds}
            binders = " ".join("(%s : %s)" % (x, kind_of(x, sh.kinds)) for x in ins) + " " + \
                      " ".join("(%s : Z)" % x for x in scal)
            text += "(* %s: %s%s\n   reads: %s\n   writes: %s *)\n" % (
                src, cname, (" [%s]" % " ".join(defs)) if defs else "", ", ".join(ins) or "-", ", ".join(outs) or "-")
            text += "Definition %s %s :=\n  %s.\n" % (coqname, binders.strip(), term)
            if outs:
                comps = ["ret"] + ["x_" + p for p in outs]
                pat = "(" + ", ".join(comps) + ")"
                allargs = " ".join(ins + scal)
                for comp in comps:
                    text += "Definition %s__%s %s := let '%s := %s %s in %s.\n" % (
                        coqname, comp[2:] if comp != "ret" else "ret", binders.strip(), pat, coqname, allargs, comp)
            text += "\n"
            status["translated"].append(coqname)
        except Unsupported as ex:
            errors.append("%s (%s): %s" % (cname, src, ex))
            status["unsupported"][coqname] = str(ex)
            text += "(* %s: NOT TRANSLATED: %s *)\n\n" % (cname, str(ex).replace("*)", "* )"))
        except Exception as ex:      # noqa: an AST shape this translator does not know
            errors.append("%s (%s): %r" % (cname, src, ex))
            status["unsupported"][coqname] = "translator error: %r" % (ex,)
            text += "(* %s: NOT TRANSLATED: translator error *)\n\n" % cname
    with open(out, "w") as f:
        f.write(text)
    with open(os.path.splitext(out)[0] + ".json", "w") as f:
        json.dump(status, f, indent=1)
    for e in errors:
        print("UNSUPPORTED " + e)
    return 1 if errors else 0


if __name__ == "__main__":
    sys.exit(main())
