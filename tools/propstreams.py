"""propstreams.py — per-property input families and how each is run (which build of the
implementation, which extracted observer, twin assertions or not).

A family is a list of (script name, lines).  Generators aim at the case splits of the proofs:
gate boundaries (error code just above / at the accepted level), address extremes, flag
toggles, repetition of values from small pools (extended check, same-data suppression,
progressive replacement), resets at arbitrary points.
"""
import random

import streams
from streams import Gen, P, S_hex, mkB

SPECS = {}
for _i in range(1, 21):
    SPECS["C%02d" % _i] = {}

SPECS["C05"]["harnesses"] = [("hu", "asan"), ("hn", "asan"), ("xu", "asan"), ("hu", "msan"), ("xn", "msan")]
SPECS["C20"]["harnesses"] = [("hu", None), ("hn", None), ("xu", None), ("xn", None)]
SPECS["C19"]["harnesses"] = [("hu", None)]
SPECS["C16"]["harnesses"] = [("hu", None), ("xu", None), ("hn", None)]


def scale(tier, quick, thorough):
    return thorough if tier == "thorough" else quick


# how many times the families of a property are generated afresh (from the same PRNG, so every
# round explores other inputs) within one check
ROUNDS = {"quick": 4, "thorough": 3}
SINGLE_ROUND = {"C18", "C19", "C20", "C05"}


def fam(name, stream, out, **kw):
    d = {"name": name, "stream": stream, "out": out}
    d.update(kw)
    return d


def warm_lines(g, k=0, flag=None):
    """fills PS / RT-A / RT-B / PTYN partly, sets a flag, some AF entries, ECC"""
    r = g.r
    f = r.randrange(2) if flag is None else flag
    L = []
    L.append(P(k, 0x3201, mkB(0, 0, 1, 5, 0b01000 | 1), 0x1490, 0x4142))
    L.append(P(k, 0x3201, mkB(0, 1, 1, 5, 0b10000 | 2), 0x3201, 0x4344))
    L.append(P(k, 0x3201, mkB(1, 0, 1, 5, 0), 0x00E2, 0x0000))
    L.append(P(k, 0x3201, mkB(2, 0, 1, 5, ((1 - f) << 4) | 1), 0x6162, 0x6364))
    L.append(P(k, 0x3201, mkB(2, 0, 1, 5, (f << 4) | 0), 0x5152, 0x5354))
    L.append(P(k, 0x3201, mkB(2, 1, 1, 5, (f << 4) | 9), 0x3201, 0x7A7B))
    L.append(P(k, 0x3201, mkB(10, 0, 1, 5, 1), 0x4E45, 0x5753))
    return L


# ---------------------------------------------------------------------------------------
def generic_histories(rng, count, length, **kw):
    out = []
    for i in range(count):
        g = Gen(rng, heavy_special=(i % 3 == 2))
        out.append(("hist_%d" % i, g.history(length, **kw)))
    return out


def long_runs(rng, prefix, kinds=None, n_bursts=6, k=0):
    """one long script: bursts of up to 300 consecutive identical groups (a counter of repetitions that
    wraps at 256, a cache of the last group), with single different groups and occasional resets between"""
    g = Gen(rng, k=k)
    L = g.preamble(register="all", permissive=(rng.random() < 0.5), ext=False)
    for b in range(n_bursts):
        line = g.parse_line(rng.choice(kinds) if kinds else None, (0, 0, 0, 0))
        for _ in range(rng.choice([3, 40, 257, 300])):
            L.append(line)
        for _ in range(rng.randrange(1, 6)):
            L.append(g.parse_line(rng.choice(kinds) if kinds else None))
        if rng.random() < 0.3:
            L.append("%d C" % k)
        L.append(line)
    return ("%s_long" % prefix, L)


def sweep_script(name, prefix, items, k=0):
    """save the state after the prefix, then run every item from that same state"""
    L = list(prefix) + ["%d V" % k]
    for it in items:
        L.append(it)
        L.append("%d W" % k)
    return (name, L)


def chunks(lst, n):
    for i in range(0, len(lst), n):
        yield lst[i:i + n]


# ---------------------------------------------------------------------------------------
# C01
def run_C01(tier, rng, chk):
    res = []
    g = Gen(rng)
    n_hist = scale(tier, 60, 400)
    hist = []
    for i in range(n_hist):
        gg = Gen(rng)
        L = gg.preamble(register="random", ext=False)
        for _ in range(scale(tier, 150, 250)):
            x = rng.random()
            if x < 0.04:
                L.append("0 C")
            elif x < 0.07:
                L.append(rng.choice(["0 T %d %d %d" % (rng.randrange(3), rng.randrange(2), rng.randrange(4)),
                                     "0 G %d %d" % (rng.randrange(3), rng.randrange(2)),
                                     "0 R %d %d" % (rng.randrange(12), rng.randrange(4))]))
            else:
                kind = None if rng.random() < 0.6 else "other"
                e = rng.choice([(0, 0, 0, 0), (0, 0, 0, 0), (1, 0, 0, 0), (0, 1, 0, 0), (3, 0, 0, 0), (0, 3, 0, 0),
                                (2, 2, 0, 0), (0, 0, 3, 3), (255, 0, 0, 0), (0, 255, 0, 0), (rng.randrange(4), rng.randrange(4), rng.randrange(4), rng.randrange(4))])
                L.append(gg.parse_line(kind, e))
        hist.append(("c01_hist_%d" % i, L))
    hist.append(long_runs(rng, "c01"))
    out = chk.run_stream(hist, prop="C01")
    res.append(fam("histories(normal mode, all group types, error patterns on A/B)", hist, out,
                   owned_keys=["pi", "pty", "tp", "ta", "ms"]))
    # sweeps over block B and block A from a fresh and a warm state
    step = scale(tier, 13, 1)
    sw = []
    for warm in (0, 1):
        pre = ["0 I 165"] + ["0 R %d 1" % f for f in range(12)] + (warm_lines(g) if warm else [])
        items_b = [P(0, 0x1234, b, 0x2020, 0x4142) for b in range(rng.randrange(step), 65536, step)]
        items_a = [P(0, a, mkB(rng.choice([0, 2, 15]), 0, 0, 3, 0), 0x2020, 0x4142) for a in range(rng.randrange(step * 5), 65536, step * 5)]
        for ci, ch in enumerate(chunks(items_b + items_a, 1500)):
            sw.append(sweep_script("c01_sweep_w%d_%d" % (warm, ci), pre, ch))
    out = chk.run_stream(sw, prop="C01")
    res.append(fam("sweep(all/strided values of block B and block A, fresh and warm state)", sw, out,
                   owned_keys=["pi", "pty", "tp", "ta", "ms"], extra_cov={"exhaustive_block_B": step == 1}))
    return res


# ---------------------------------------------------------------------------------------
# C02: error-free text receptions
def text_group(rng, kind, addr, flag, c, d):
    if kind == "0A":
        b = mkB(0, 0, rng.randrange(2), rng.randrange(32), (rng.randrange(8) << 2) | (addr & 3))
    elif kind == "0B":
        b = mkB(0, 1, rng.randrange(2), rng.randrange(32), (rng.randrange(8) << 2) | (addr & 3))
    elif kind == "2A":
        b = mkB(2, 0, rng.randrange(2), rng.randrange(32), (flag << 4) | (addr & 15))
    elif kind == "2B":
        b = mkB(2, 1, rng.randrange(2), rng.randrange(32), (flag << 4) | (addr & 15))
    elif kind == "10A":
        b = mkB(10, 0, rng.randrange(2), rng.randrange(32), (rng.randrange(16) << 1) | (addr & 1))
    else:
        b = mkB(10, 1, rng.randrange(2), rng.randrange(32), rng.randrange(32))
    return (rng.randrange(65536), b, c, d)


def run_C02(tier, rng, chk):
    res = []
    g = Gen(rng)
    sw = []
    kinds = ["0A", "0B", "2A", "2B", "10A", "10B"]
    for warm in (0, 1):
        for flag in (0, 1):
            pre = ["0 I %d" % rng.choice([0, 255, 165])] + ["0 R %d 1" % f for f in (8, 9, 10)]
            if warm:
                pre += warm_lines(g, flag=flag)
            items = []
            for kind in kinds:
                # all 256 byte values in each of the four lanes
                for byte in range(256):
                    for lane in range(4):
                        if tier == "quick" and (byte + lane + warm) % 2:
                            continue
                        w = [rng.choice(streams.TEXT_BYTES_ASCII) for _ in range(4)]
                        w[lane] = byte
                        addr = rng.randrange(16)
                        items.append(P(0, *text_group(rng, kind, addr, flag, (w[0] << 8) | w[1], (w[2] << 8) | w[3])))
                # all addresses, both flags
                for addr in range(16):
                    for fl in (0, 1):
                        items.append(P(0, *text_group(rng, kind, addr, fl, g.word(), g.word())))
            for ci, ch in enumerate(chunks(items, 1200)):
                sw.append(sweep_script("c02_sweep_w%d_f%d_%d" % (warm, flag, ci), pre, ch))
    out = chk.run_stream(sw, prop="C02")
    res.append(fam("sweep(256 bytes x 4 lanes x group kinds, all addresses x flags; fresh and warm)", sw, out))
    hist = []
    for i in range(scale(tier, 40, 300)):
        gg = Gen(rng, heavy_special=(i % 2 == 0))
        L = gg.preamble(register="random")
        for _ in range(scale(tier, 150, 250)):
            x = rng.random()
            if x < 0.03:
                L.append("0 C")
            elif x < 0.75:
                L.append(gg.parse_line(rng.choice(["0A", "0B", "2A", "2B", "10A", "10B", "2A"]), (rng.choice([0, 0, 0, 1, 3]), 0, 0, 0)))
            else:
                L.append(gg.parse_line())
        hist.append(("c02_hist_%d" % i, L))
    out = chk.run_stream(hist, prop="C02")
    res.append(fam("histories(mostly error-free text groups, flag toggles, resets)", hist, out))
    # no data word has a lasting effect: every 16-bit value in a text data block (PS: all of them;
    # RT and PTYN: strided in the quick tier), each followed by a probe group with bytes from every
    # part of the table in the neighbouring cells; the state is NOT restored in between
    stk = []
    probe = [0x80E1, 0x24FF, 0x7E5E, 0x41C0]
    for (kind, step) in (("0A", 1), ("2A", scale(tier, 7, 1)), ("10A", scale(tier, 7, 1))):
        items = []
        for w in range(rng.randrange(step), 65536, step):
            a = rng.randrange(2)
            items.append(P(0, *text_group(rng, kind, a, 0, w, w)))
            items.append(P(0, *text_group(rng, kind, 1 - a, 0, rng.choice(probe), rng.choice(probe))))
        for ci, ch in enumerate(chunks(items, 6000)):
            stk.append(("c02_sticky_%s_%d" % (kind, ci), ["0 I 0"] + ["0 R %d 1" % f for f in (8, 9, 10)] + ch))
    out = chk.run_stream(stk, prop="C02")
    res.append(fam("lasting effects(every 16-bit data word in PS, strided in RT / PTYN, each followed by special characters next to it, no restore)", stk, out))
    return res


# ---------------------------------------------------------------------------------------
# C03: twin runs
class Cfg:
    """the generator's own view of the settings (last write wins, clamp) — only used to build
    pairs; the driver re-checks every pair with the extracted dontcare_equiv"""

    def __init__(self):
        self.corr = [[0, 0], [0, 0], [0, 0]]

    def feed(self, line):
        t = line.split()
        if len(t) >= 5 and t[1] == "T":
            self.corr[int(t[2])][int(t[3])] = min(int(t[4]), 2)
        if len(t) >= 2 and t[1] == "I":
            self.corr = [[0, 0], [0, 0], [0, 0]]


def text_of_b(b):
    g = b >> 12
    ver = (b >> 11) & 1
    if g == 0:
        return 0
    if g == 2:
        return 1
    if g == 10 and ver == 0:
        return 2
    return None


def used_b(cfg, eb, b):
    if eb == 0:
        return True
    t = text_of_b(b)
    return t is not None and eb <= cfg.corr[t][0]


def used_c(cfg, b, e):
    g = b >> 12
    ver = (b >> 11) & 1
    if ver:
        return False
    if g in (0, 1):
        return e[1] == 0 and e[2] == 0
    if g == 4:
        return e[1] == 0 and e[2] == 0 and e[3] == 0
    if g == 2:
        return e[1] <= cfg.corr[1][0] and e[2] <= cfg.corr[1][1]
    if g == 10:
        return e[1] <= cfg.corr[2][0] and e[2] <= cfg.corr[2][1]
    return False


def used_d(cfg, b, e):
    g = b >> 12
    ver = (b >> 11) & 1
    if g == 0:
        return e[1] <= cfg.corr[0][0] and e[3] <= cfg.corr[0][1]
    if g == 2:
        return e[1] <= cfg.corr[1][0] and e[3] <= cfg.corr[1][1]
    if g == 10 and ver == 0:
        return e[1] <= cfg.corr[2][0] and e[3] <= cfg.corr[2][1]
    if g == 4 and ver == 0:
        return e[1] == 0 and e[2] == 0 and e[3] == 0
    return False


def twin_variant(rng, cfg, grp, e):
    """replace don't-care blocks of grp; returns the variant or None when every block is used"""
    a, b, c, d = grp
    a2, b2, c2, d2 = a, b, c, d
    changed = False
    if e[0] != 0 and rng.random() < 0.8:
        a2 = rng.randrange(65536)
        changed = changed or a2 != a
    if not used_b(cfg, e[1], b):
        # B ignored: the replacement must not be used either
        for _ in range(8):
            cand = rng.choice([rng.randrange(65536), mkB(rng.choice([0, 1, 2, 4, 10, 3, 15]), rng.randrange(2), rng.randrange(2), rng.randrange(32), rng.randrange(32)),
                               b ^ (1 << rng.randrange(16))])
            if not used_b(cfg, e[1], cand):
                b2 = cand
                break
        c2 = rng.randrange(65536) if rng.random() < 0.7 else c
        d2 = rng.randrange(65536) if rng.random() < 0.7 else d
        changed = changed or (b2, c2, d2) != (b, c, d)
    else:
        if e[1] != 0 and rng.random() < 0.7:
            # a corrected block B that is accepted as a text address: every bit other than group
            # type, version and the cell address is a don't-care (PTY, TP, TA, MS, DI ...)
            grp_ = b >> 12
            ver_ = (b >> 11) & 1
            keep = 0xF800 | (3 if grp_ == 0 else 31 if grp_ == 2 else 1 if (grp_ == 10 and ver_ == 0) else 0)
            b2 = (b & keep) | (rng.randrange(65536) & ~keep & 0xFFFF)
            if rng.random() < 0.5:
                b2 = b ^ ((1 << rng.choice([2, 3, 4, 5, 6, 9, 10])) & ~keep & 0xFFFF)
            changed = changed or b2 != b
        if not used_c(cfg, b, e) and rng.random() < 0.9:
            c2 = rng.choice([rng.randrange(65536), c ^ 0x0100, c ^ 1])
            changed = changed or c2 != c
        if not used_d(cfg, b, e) and rng.random() < 0.9:
            d2 = rng.choice([rng.randrange(65536), d ^ 0x0100, d ^ 1, d ^ 0x20])
            changed = changed or d2 != d
    if not changed:
        return None
    return (a2, b2, c2, d2)


def boundary_errs(rng, cfg, kind):
    """error pattern with at least one block just above its accepted level"""
    t = {"0A": 0, "0B": 0, "2A": 1, "2B": 1, "10A": 2}.get(kind)
    e = [0, 0, 0, 0]
    which = rng.choice(["a", "b", "c", "d", "cd", "bd"])
    info = cfg.corr[t][0] if t is not None else 0
    data = cfg.corr[t][1] if t is not None else 0
    if "a" in which:
        e[0] = rng.choice([1, 2, 3, 200])
    if "b" in which:
        e[1] = rng.choice([info + 1, 3, info + 1, 255])
    else:
        e[1] = rng.randrange(0, info + 1)
    if "c" in which:
        e[2] = rng.choice([data + 1, 3, 1 if kind in ("0A", "1A", "4A") else data + 1])
    else:
        e[2] = rng.randrange(0, data + 1) if kind in ("2A", "10A") else 0
    if "d" in which:
        e[3] = rng.choice([data + 1, 3, 1 if kind == "4A" else data + 1])
    else:
        e[3] = rng.randrange(0, data + 1) if kind not in ("4A",) else 0
    return tuple(min(x, 255) for x in e)


def run_C03(tier, rng, chk):
    st = []
    for i in range(scale(tier, 150, 1200)):
        g0 = Gen(rng, k=0, heavy_special=(i % 4 == 0))
        cfg = Cfg()
        pre = g0.preamble(register="all", permissive=(rng.random() < 0.7), ext=(rng.random() < 0.25))
        L = []
        for l in pre:
            cfg.feed(l)
            L.append(l)
            L.append("1" + l[1:])
        n = scale(tier, 60, 120)
        for _ in range(n):
            x = rng.random()
            if x < 0.05:
                l = g0.setting_line()
                if " I " in l:
                    continue
                cfg.feed(l)
                L.append(l)
                L.append("1" + l[1:])
                continue
            kind = rng.choice(["0A", "0B", "1A", "1B", "2A", "2B", "4A", "10A", "10B", "other", "2A", "0A", "4A"])
            grp = g0.group(kind)
            if rng.random() < 0.6:
                e = boundary_errs(rng, cfg, kind)
            else:
                e = g0.errs()
            zz = rng.random()
            if zz < 0.06:
                # a group whose blocks are all 0x0000 (or all 0xFFFF): whatever a "nothing received" /
                # "all ones" shortcut looks at, the flagged blocks of the twin differ from it
                grp = (0, 0, 0, 0) if zz < 0.04 else (0xFFFF, 0xFFFF, 0xFFFF, 0xFFFF)
                kind = "0A" if zz < 0.04 else "other"
                if all(x == 0 for x in e):
                    e = tuple(rng.choice([0, 3]) for _ in range(4))
            var = twin_variant(rng, cfg, grp, e) if (rng.random() < 0.6 or zz < 0.06) else None
            L.append(P(0, *grp, e))
            if var is None:
                L.append(P(1, *grp, e))
                L.append("? 0 1")
            else:
                L.append(P(1, *var, e))
                L.append("?3 0 1")
        st.append(("c03_twin_%d" % i, L))
    out = chk.run_stream(st, prop="C03", twin=True)
    return [fam("twin runs(don't-care blocks replaced at every gate boundary, identical continuation)", st, out, twin=True)]


# ---------------------------------------------------------------------------------------
def run_C04(tier, rng, chk):
    hist = []
    for i in range(scale(tier, 90, 700)):
        gg = Gen(rng, heavy_special=(i % 3 == 0))
        L = gg.preamble(register=rng.choice(["all", "all", "random"]))
        for _ in range(scale(tier, 140, 220)):
            if rng.random() < 0.07:
                L.append(gg.setting_line())
            else:
                l = gg.parse_line()
                L.append(l)
                if rng.random() < 0.15:
                    L.append(l)        # immediate re-delivery
        hist.append(("c04_hist_%d" % i, L))
    hist.append(long_runs(rng, "c04"))
    out = chk.run_stream(hist, prop="C04")
    res = [fam("histories(all group kinds, all settings, immediate re-delivery, registrations changing)", hist, out)]
    # targeted: text groups whose blocks are rejected after a flag switch; same data at better level
    tg = []
    for i in range(scale(tier, 60, 400)):
        gg = Gen(rng)
        L = gg.preamble(register="all", permissive=True, ext=False)
        fl = rng.randrange(2)
        for _ in range(scale(tier, 100, 160)):
            x = rng.random()
            if x < 0.15:
                fl ^= 1
            kind = rng.choice(["2A", "2B", "0A", "10A"])
            addr = rng.choice([0, 1, 2, 3])
            w = rng.choice([0x4142, 0x2020, 0x4142, 0x0D41, 0x8041, 0x1F41, 0x4343])
            grp = text_group(rng, kind, addr, fl, w, rng.choice([w, 0x2020, 0x4444]))
            e = (0, rng.choice([0, 0, 0, 1, 2, 3]), rng.choice([0, 1, 2, 3]), rng.choice([0, 1, 2, 3]))
            L.append(P(0, *grp, e))
        tg.append(("c04_text_%d" % i, L))
    out = chk.run_stream(tg, prop="C04")
    res.append(fam("text scenarios(flag switches with rejected blocks, same data at better/worse level, blanks on empty cells)", tg, out))
    return res


# ---------------------------------------------------------------------------------------
def hammer_scripts(rng, tier, prefix, prog_mode, single_flag=True, n_scripts=(80, 500), n_ops=(160, 260)):
    st = []
    for i in range(scale(tier, *n_scripts)):
        gg = Gen(rng)
        L = ["0 I %d" % rng.choice([0, 255])] + ["0 R %d 1" % f for f in (8, 9, 10)]
        for t in range(3):
            L.append("0 T %d 0 %d" % (t, rng.choice([0, 1, 2, 2, 3, 255])))
            L.append("0 T %d 1 %d" % (t, rng.choice([0, 1, 2, 2, 3, 255])))
            pm = prog_mode if prog_mode is not None else rng.randrange(2)
            L.append("0 G %d %d" % (t, pm))
        fl = rng.randrange(2)
        pool = [0x41, 0x42, 0x20, 0x0D, 0x80, 0xE1, 0x7F, 0x7E, 0x1F, 0x00, 0xFF, rng.randrange(256)]
        for _ in range(scale(tier, *n_ops)):
            x = rng.random()
            if x < 0.02:
                L.append("0 C")
                fl = rng.randrange(2)
                continue
            if x < 0.05:
                L.append("0 T %d %d %d" % (rng.randrange(3), rng.randrange(2), rng.choice([0, 1, 2, 3])))
                continue
            if x < 0.07 and prog_mode is None:
                L.append("0 G %d %d" % (rng.randrange(3), rng.randrange(2)))
                continue
            if not single_flag and rng.random() < 0.1:
                fl ^= 1
            kind = rng.choice(["0A", "0B", "2A", "2B", "10A"])
            addr = rng.choice([0, 1]) if rng.random() < 0.8 else rng.randrange(16)
            c = (rng.choice(pool) << 8) | rng.choice(pool)
            d = (rng.choice(pool) << 8) | rng.choice(pool)
            grp = text_group(rng, kind, addr, fl, c, d)
            e = (rng.choice([0, 0, 3]), rng.choice([0, 0, 1, 1, 2, 2, 3, 4]), rng.choice([0, 0, 1, 2, 3, 255]), rng.choice([0, 0, 1, 2, 3, 255]))
            L.append(P(0, *grp, e))
        st.append(("%s_%d" % (prefix, i), L))
    return st


def run_C06(tier, rng, chk):
    st = hammer_scripts(rng, tier, "c06_hammer", None, single_flag=True)
    st.append(long_runs(rng, "c06", ["0A", "2A", "2B", "10A", "0B"]))
    out = chk.run_stream(st, prop="C06")
    res = [fam("hammer(few cells per text, all threshold pairs, both progressive settings, error pairs 0..4/255, special bytes)", st, out)]
    st2 = hammer_scripts(rng, tier, "c06_toggle", None, single_flag=False, n_scripts=(40, 250))
    out = chk.run_stream(st2, prop="C06")
    res.append(fam("hammer with A/B flag toggles", st2, out))
    st3 = hammer_scripts(rng, tier, "c06_narrow", None, single_flag=False, n_scripts=(40, 250))
    out = chk.run_stream(st3, prop="C06", variant="hn")
    res.append(fam("hammer on the non-unicode build (special bytes with and without errors)", st3, out, variant="hn"))
    return res


def run_C07(tier, rng, chk):
    st = hammer_scripts(rng, tier, "c07_prog", 1, single_flag=True)
    out = chk.run_stream(st, prop="C07")
    res = [fam("progressive hammer(all three texts progressive, every level pair in both orders, clears)", st, out)]
    st2 = hammer_scripts(rng, tier, "c07_mixed", None, single_flag=False, n_scripts=(40, 250))
    out = chk.run_stream(st2, prop="C07")
    res.append(fam("mixed progressive settings with flag toggles", st2, out))
    st3 = hammer_scripts(rng, tier, "c07_narrow", 1, single_flag=True, n_scripts=(30, 200))
    out = chk.run_stream(st3, prop="C07", variant="hn")
    res.append(fam("progressive hammer on the non-unicode build", st3, out, variant="hn"))
    return res


def run_C08(tier, rng, chk):
    st = []
    for i in range(scale(tier, 120, 900)):
        gg = Gen(rng)
        L = ["0 I 0"] + ["0 R %d 1" % f for f in (8, 9, 10)] if rng.random() < 0.8 else ["0 I 0"]
        L.append("0 T 1 0 %d" % rng.choice([0, 1, 2, 2]))
        L.append("0 T 1 1 %d" % rng.choice([0, 1, 2, 2]))
        if rng.random() < 0.3:
            L.append("0 G 1 1")
        for _ in range(scale(tier, 120, 200)):
            x = rng.random()
            if x < 0.04:
                L.append("0 C")
                continue
            if x < 0.06:
                L.append("0 R 9 %d" % rng.randrange(3))
                continue
            if x < 0.16:
                L.append(gg.parse_line(rng.choice(["0A", "10A", "4A", "1A", "other"])))
                continue
            kind = rng.choice(["2A", "2B"])
            fl = rng.randrange(2)
            addr = rng.choice([0, 1, 15, rng.randrange(16)])
            ebv = rng.choice([0, 0, 0, 1, 2, 3])
            e = (rng.choice([0, 3]), ebv, rng.choice([0, 0, 1, 3]), rng.choice([0, 0, 1, 3]))
            # pairs of which only the first / only the second character is storable too: "is this
            # buffer empty?" must look at every cell, not at one per pair
            w1 = rng.choice([0x4142, 0x2020, 0x0D0D, 0x1F1F, 0x6162, 0x1F58, 0x581F, 0x0A59])
            w2 = rng.choice([0x4344, 0x2020, 0x1F1F, 0x6364, 0x1F5A, 0x5A1F])
            L.append(P(0, *text_group(rng, kind, addr, fl, w1, w2), e))
        st.append(("c08_toggle_%d" % i, L))
    out = chk.run_stream(st, prop="C08")
    res = [fam("toggle scenarios(every eb in 0..3 from every last-flag state, empty/non-empty buffers, undecodable blocks, clears)", st, out)]
    # runs of 1..8 consecutive type-2 groups that must all be ignored (flag other than the one last
    # seen, block B errored at the same level each time), then a real switch: the guard against a
    # flipped flag bit holds however often the suspicious flag repeats
    rn = []
    for i in range(scale(tier, 30, 200)):
        L = ["0 I 0"] + ["0 R %d 1" % f for f in (8, 9, 10)]
        L.append("0 T 1 0 %d" % rng.choice([1, 2, 2]))
        L.append("0 T 1 1 %d" % rng.choice([0, 1, 2]))
        fl = rng.randrange(2)
        for _ in range(scale(tier, 8, 12)):
            # latch fl with error-free groups filling some cells
            for a in rng.sample(range(16), rng.randrange(1, 4)):
                L.append(P(0, *text_group(rng, rng.choice(["2A", "2B"]), a, fl, rng.choice([0x4142, 0x6162, 0x2020]), rng.choice([0x4344, 0x6364]))))
            ebv = rng.choice([1, 1, 2, 3, 200])
            for _ in range(rng.randrange(1, 9)):
                a = rng.choice([0, 1, rng.randrange(16)])
                L.append(P(0, *text_group(rng, rng.choice(["2A", "2B"]), a, 1 - fl, rng.choice([0x5152, 0x7172]), rng.choice([0x5354, 0x7374])),
                           (0, ebv, rng.choice([0, 0, 1]), rng.choice([0, 0, 1]))))
            if rng.random() < 0.5:
                L.append(gg.parse_line(rng.choice(["0A", "10A"])))
            # a clean group with the flag last seen (nothing may have been switched), then a real switch
            L.append(P(0, *text_group(rng, "2A", rng.randrange(16), fl, 0x4A4B, 0x4C4D)))
            if rng.random() < 0.6:
                fl = 1 - fl
                L.append(P(0, *text_group(rng, "2A", rng.randrange(16), fl, 0x5A5B, 0x5C5D)))
            if rng.random() < 0.15:
                L.append("0 C")
        rn.append(("c08_runs_%d" % i, L))
    out = chk.run_stream(rn, prop="C08")
    res.append(fam("runs(1..8 consecutive groups to be ignored at one error level, then the last flag again, then a real switch)", rn, out))
    # "does the newly selected buffer hold anything?" must look at every cell: a buffer in which only
    # odd (or only even, only the last, only one) cells were ever stored, then a switch away and back
    sp = []
    for i in range(scale(tier, 60, 300)):
        L = ["0 I %d" % rng.choice([0, 255])] + ["0 R %d 1" % f for f in (8, 9, 10)]
        L.append("0 T 1 0 %d" % rng.choice([0, 1, 2]))
        L.append("0 T 1 1 %d" % rng.choice([0, 1, 2]))
        fl = rng.randrange(2)
        style = rng.choice(["odd", "odd", "even", "last", "one"])
        for _ in range(rng.choice([1, 1, 2, 3])):
            if style == "odd":
                w = (rng.choice([0x1F, 0x0A, 0x00]) << 8) | rng.choice([0x58, 0x59, 0x41])
            elif style == "even":
                w = (rng.choice([0x58, 0x59, 0x41]) << 8) | rng.choice([0x1F, 0x0A, 0x00])
            else:
                w = rng.choice([0x4142, 0x1F58, 0x581F])
            kind = "2B" if style != "odd" or rng.random() < 0.5 else "2A"
            addr = 15 if style == "last" else rng.randrange(16)
            wc = w if kind == "2A" else rng.randrange(65536)
            L.append(P(0, *text_group(rng, kind, addr, fl, wc, w), (0, 0, 0, 0)))
        # away and back, error-free; then once more
        for f2 in (fl ^ 1, fl, fl ^ 1, fl):
            L.append(P(0, *text_group(rng, rng.choice(["2A", "2B"]), rng.randrange(16), f2, 0x4344, 0x4546), (rng.choice([0, 3]), 0, rng.choice([0, 3]), rng.choice([0, 0, 3]))))
        sp.append(("c08_sparse_%d" % i, L))
    out = chk.run_stream(sp, prop="C08")
    res.append(fam("sparsely filled buffers (only odd / only even / only the last cell stored), then a switch away and back", sp, out))
    return res


def ext_history(rng, tier, prefix, n_scripts, late_enable=False):
    st = []
    for i in range(scale(tier, *n_scripts)):
        gg = Gen(rng)
        gg.pis = gg.pis[:3]
        gg.afs = [1, 2, 9, 144, 145, 204, 205, 0, 250]
        L = ["0 I %d" % rng.choice([0, 165])] + ["0 R %d 1" % f for f in range(12) if rng.random() < 0.8]
        if late_enable:
            for _ in range(rng.randrange(1, 12)):
                L.append(gg.parse_line(None, rng.choice([(0, 0, 0, 0), (0, 0, 0, 0), (1, 0, 0, 0)])))
            L.append("0 C")
        L.append("0 X 1")
        for _ in range(scale(tier, 70, 110)):
            x = rng.random()
            if x < 0.04:
                L.append("0 C")
            elif x < 0.06:
                L.append("0 X 1")
            else:
                kind = rng.choice(["0A", "0A", "0B", "1A", "1A", "2A", "other", "1B", "4A"])
                e = rng.choice([(0, 0, 0, 0)] * 5 + [(1, 0, 0, 0), (0, 1, 0, 0), (0, 0, 1, 0), (3, 3, 0, 0)])
                L.append(gg.parse_line(kind, e))
        st.append(("%s_%d" % (prefix, i), L))
    return st


def run_C09(tier, rng, chk):
    st = ext_history(rng, tier, "c09_ext", (150, 1000))
    out = chk.run_stream(st, prop="C09")
    res = [fam("extended-check histories(values from pools of 3: A,B,A,B / A,A / A,err,A; clears between receptions; AF pairs sharing bitmap bytes)", st, out,
               owned_keys=["pi", "pty", "tp", "ta", "ms", "ecc", "country", "af"])]
    st2 = ext_history(rng, tier, "c09_late", (80, 500), late_enable=True)
    out = chk.run_stream(st2, prop="C09")
    res.append(fam("check enabled after a normal-mode history and a clear", st2, out,
                   owned_keys=["pi", "pty", "tp", "ta", "ms", "ecc", "country", "af"]))
    # texts and clock time are not subject to the mode: twin with the check on / off
    tw = []
    for i in range(scale(tier, 60, 400)):
        gg = Gen(rng)
        L = []
        for k in (0, 1):
            L += ["%d I 0" % k] + ["%d R %d 1" % (k, f) for f in (8, 9, 10, 11)]
            for t in range(3):
                L.append("%d T %d 0 2" % (k, t))
                L.append("%d T %d 1 2" % (k, t))
        L.append("0 X 1")
        for _ in range(scale(tier, 80, 140)):
            l = gg.parse_line(rng.choice(["0A", "2A", "2B", "10A", "4A", "0B"]))
            if l.split()[1] != "P":
                continue
            L.append(l)
            L.append("1" + l[1:])
            L.append("?t 0 1")
        tw.append(("c09_texts_%d" % i, L))
    out = chk.run_stream(tw, prop="C09", twin=True)
    res.append(fam("twin(check on vs off): texts and clock-time reports identical", tw, out, twin=True))
    return res


def run_C10(tier, rng, chk):
    res = []
    g = Gen(rng)
    sw = []
    step = scale(tier, 11, 1)
    for mode in ("empty", "nonempty", "ext"):
        pre = ["0 I 0", "0 R 7 1"]
        if mode == "ext":
            pre.append("0 X 1")
        if mode != "empty":
            pre += [P(0, 0x1000, mkB(0, 0), (1 << 8) | 204, 0x2020), P(0, 0x1000, mkB(0, 0), (9 << 8) | 144, 0x2020), P(0, 0x1000, mkB(0, 0), (9 << 8) | 10, 0x2020)]
        items = []
        for c in range(rng.randrange(step), 65536, step):
            items.append(P(0, 0x1000, mkB(0, 0, 0, 0, rng.randrange(32)), c, 0x2020))
        for af1 in (0, 1, 204, 205, 224, 249, 250, 251, 255):
            for af2 in range(256):
                items.append(P(0, 0x1000, mkB(0, 0), (af1 << 8) | af2, 0x2020))
        for c in (0x0101, 0x01CC, 0xCC01, 0x9001, 0xFA01):
            for grp in range(16):
                for ver in (0, 1):
                    for e in ((0, 0, 0, 0), (0, 1, 0, 0), (0, 0, 1, 0), (0, 0, 0, 3), (3, 0, 0, 0), (0, 3, 3, 0)):
                        items.append(P(0, 0x1000, mkB(grp, ver), c, 0x2020, e))
        for ci, ch in enumerate(chunks(items, 400)):       # short scripts: the observer's cost grows with the history
            sw.append(sweep_script("c10_sweep_%s_%d" % (mode, ci), pre, ch))
    out = chk.run_stream(sw, prop="C10")
    res.append(fam("sweep(block C over 0..65535 on 0A from empty / non-empty / extended-check lists; marker pairs; every group type and version; error patterns)", sw, out,
                   owned_keys=["af"], extra_cov={"exhaustive_block_C": step == 1}))
    hist = []
    for i in range(scale(tier, 100, 600)):
        gg = Gen(rng)
        gg.afs = [1, 2, 3, 9, 10, 144, 145, 204, 205, 0, 250, 224]
        L = gg.preamble(register="random", permissive=(rng.random() < 0.5), ext=(rng.random() < 0.5))
        for _ in range(scale(tier, 60, 90)):
            x = rng.random()
            if x < 0.04:
                L.append("0 C")
            else:
                L.append(gg.parse_line(rng.choice(["0A", "0A", "0A", "0B", "other", "2A"]), rng.choice([(0, 0, 0, 0)] * 4 + [(0, 1, 0, 0), (0, 0, 1, 0), (0, 1, 1, 0), (0, 2, 2, 0)])))
        hist.append(("c10_hist_%d" % i, L))
    hist.append(long_runs(rng, "c10", ["0A", "0A", "0B"], n_bursts=2))     # obs_C10 costs O(history) per step: two bursts
    out = chk.run_stream(hist, prop="C10")
    res.append(fam("histories(AF pools sharing bitmap bytes, both check modes, corrected blocks with permissive text thresholds)", hist, out, owned_keys=["af"]))
    # the same pair immediately before and after a reset, and the same pair repeated: "since the last
    # reset" must not depend on what was received before it
    rep = []
    for i in range(scale(tier, 60, 400)):
        ext = rng.random() < 0.4
        L = ["0 I %d" % rng.choice([0, 255]), "0 R 7 %d" % rng.randrange(1, 4)]
        if ext:
            L.append("0 X 1")
        for _ in range(scale(tier, 12, 20)):
            c = (rng.choice([1, 2, 9, 144, 204, rng.randrange(1, 205)]) << 8) | rng.choice([1, 3, 10, 145, 204, 205, 0, rng.randrange(256)])
            g = P(0, rng.choice([0x1000, 0x2000]), mkB(0, 0, 0, 0, rng.randrange(32)), c, 0x2020)
            for _ in range(rng.choice([1, 2, 2, 3])):
                L.append(g)
            if rng.random() < 0.3:
                L.append(P(0, 0x1000, mkB(rng.choice([2, 1, 0]), rng.randrange(2)), rng.randrange(65536), 0x4142))
            x = rng.random()
            if x < 0.6:
                L.append("0 C")
            elif x < 0.75:
                L += ["0 I %d" % rng.choice([0, 255]), "0 R 7 %d" % rng.randrange(1, 4)] + (["0 X 1"] if ext else [])
            for _ in range(rng.choice([1, 2, 2])):
                L.append(g)
        rep.append(("c10_rep_%d" % i, L))
    out = chk.run_stream(rep, prop="C10")
    res.append(fam("repetition(the same AF pair once / twice / three times, then a reset, then the same pair again; both check modes)", rep, out, owned_keys=["af"]))
    return res


def run_C11(tier, rng, chk):
    res = []
    sw = []
    for warm_pi in (None, 0x3201, 0x0201):
        pre = ["0 I 0", "0 R 5 1", "0 R 6 1"]
        if warm_pi is not None:
            pre.append(P(0, warm_pi, mkB(15, 0), 0, 0))
            pre.append(P(0, warm_pi, mkB(1, 0), 0x00E2, 0))
        items = []
        for nib in range(16):
            for ecc in range(256):
                if tier == "quick" and (ecc + nib) % 3 and not (0xA0 <= ecc <= 0xA7 or 0xD0 <= ecc <= 0xD5 or 0xE0 <= ecc <= 0xE6 or 0xF0 <= ecc <= 0xF5):
                    continue
                pi = (nib << 12) | rng.randrange(4096)
                items.append(P(0, pi, mkB(1, 0, 0, 0, rng.randrange(32)), (rng.randrange(2) << 15) | (rng.randrange(16) << 8) | ecc, rng.randrange(65536)))
        for var in range(8):
            for la in (0, 1):
                for ver in (0, 1):
                    for e in ((0, 0, 0, 0), (0, 1, 0, 0), (0, 0, 1, 0), (0, 0, 0, 3), (3, 0, 0, 3), (0, 3, 0, 0), (0, 0, 3, 0)):
                        for ecc in (0xE2, 0xA0, 0xF4):
                            items.append(P(0, rng.choice([0x3201, 0x9201, 0x0ABC]), mkB(1, ver), (la << 15) | (var << 12) | ecc, 0, e))
                            # PI unknown / damaged in the same group
                            items.append(P(0, 0x5201, mkB(1, ver), (la << 15) | (var << 12) | ecc, 0, (1,) + e[1:]))
        for ci, ch in enumerate(chunks(items, 1500)):
            sw.append(sweep_script("c11_sweep_%s_%d" % (warm_pi, ci), pre, ch))
    out = chk.run_stream(sw, prop="C11")
    res.append(fam("sweep(16 PI nibbles x 256 ECC, 8 variants x linkage bit x version x error patterns, PI unknown/known/changed in the same group)", sw, out))
    hist = []
    for i in range(scale(tier, 60, 400)):
        gg = Gen(rng)
        gg.pis = [0x3201, 0x9201, 0x9203, 0x0123, 0xF000]
        L = gg.preamble(register="random", ext=False)
        for _ in range(scale(tier, 100, 160)):
            x = rng.random()
            if x < 0.03:
                L.append("0 C")
            else:
                L.append(gg.parse_line(rng.choice(["1A", "1A", "1B", "0A", "2A", "other", "0B"]), rng.choice([(0, 0, 0, 0)] * 4 + [(1, 0, 0, 0), (0, 1, 0, 0), (0, 0, 1, 0)])))
        hist.append(("c11_hist_%d" % i, L))
    out = chk.run_stream(hist, prop="C11")
    res.append(fam("histories(PI changing between 1A groups, damaged block A, other groups in between)", hist, out))
    # "(subject to the extended check)": the country is looked up with the PI ACCEPTED at that moment,
    # which under the check is not the PI the group itself carries; ECC and country are compared with
    # the model (whose behaviour under the check is the theorem C09_observer)
    hx = []
    for i in range(scale(tier, 60, 400)):
        gg = Gen(rng)
        gg.pis = [0x9201, 0x1201, 0x9201, 0x3201, 0xF201]
        gg.eccs = [0xE1, 0xE1, 0xE0, 0xE2, 0xA0]
        L = gg.preamble(register="random", ext=True)
        for _ in range(scale(tier, 100, 160)):
            x = rng.random()
            if x < 0.03:
                L.append("0 C")
            else:
                l = gg.parse_line(rng.choice(["1A", "1A", "1A", "0A", "2A", "1B"]), rng.choice([(0, 0, 0, 0)] * 5 + [(1, 0, 0, 0), (0, 1, 0, 0)]))
                L.append(l)
                if rng.random() < 0.35:
                    L.append(l)
        hx.append(("c11_ext_%d" % i, L))
    out = chk.run_stream(hx, prop="-")
    res.append(fam("extended check(1A groups whose own PI is not the accepted one: alternating PIs, same ECC, repeated and non-consecutive)", hx, out,
                   observer="-", owned_keys=["ecc", "country"]))
    return res


def ct_group(mjd, hour, minute, off, ver=0, grp=4):
    b = mkB(grp, ver, 0, 0, 0) | (mjd >> 15)
    c = ((mjd & 0x7FFF) << 1) | (hour >> 4)
    d = ((hour & 15) << 12) | (minute << 6) | off
    return (0x1000, b, c, d)


def run_C12(tier, rng, chk):
    res = []
    sw = []
    items = []
    mstep = scale(tier, 37, 1)
    for carry in ((0, 0, 0), (23, 59, 1), (0, 0, 0x21), (23, 30, 31), (0, 29, 63)):
        for mjd in range(rng.randrange(mstep), 131072, mstep):
            items.append(P(0, *ct_group(mjd, *carry)))
    special = [0, 1, 15078, 15079, 15080, 51544, 51603, 51604, 60369, 88127, 88128, 88129, 131071, 65535, 65536, 125811]
    for mjd in special:
        for hour in range(32):
            for minute in range(64):
                offs = range(64) if tier == "thorough" else (0, 1, 0x21, 2, 0x22, 31, 63, rng.randrange(64))
                for off in offs:
                    items.append(P(0, *ct_group(mjd, hour, minute, off)))
    # the last days of February and the first of March of every year the 17-bit MJD can express
    # (where the 4 / 100 / 400 year rules of the conversion take effect), and the turn of every year
    import datetime
    epoch = datetime.date(1858, 11, 17)
    for year in range(1859, 2217):
        for (mo, da) in ((2, 27), (2, 28), (3, 1), (3, 2), (12, 31), (1, 1)):
            mjd = (datetime.date(year, mo, da) - epoch).days
            if 0 <= mjd < 131072:
                items.append(P(0, *ct_group(mjd, 12, 0, 0)))
                if (mo, da) in ((2, 28), (3, 1), (12, 31)):
                    items.append(P(0, *ct_group(mjd, 23, 59, 1)))
                    items.append(P(0, *ct_group(mjd, 0, 0, 0x21)))
    # consecutive reports whose day numbers differ by 2^16 or 2^15 (a remembered conversion keyed by a
    # truncated day number); the restore between sweep items does not reach state outside the object
    for m in (65536, 65537, 70000, 88128, 100000, 125811, 131071):
        for d in (65536, 32768):
            items.append(P(0, *ct_group(m, 12, 0, 0)))
            items.append(P(0, *ct_group(m - d, 12, 0, 0)))
            items.append(P(0, *ct_group(m, 12, 0, 0)))
    for e in ((0, 1, 0, 0), (0, 0, 1, 0), (0, 0, 0, 1), (0, 0, 0, 3), (3, 0, 0, 0), (0, 2, 2, 2)):
        for ver in (0, 1):
            items.append(P(0, *ct_group(60369, 12, 30, 2, ver), e))
    for grp in range(16):
        for ver in (0, 1):
            items.append(P(0, *ct_group(60369, 12, 30, 2, ver, grp)))
    pre = ["0 I 0", "0 R 11 1"]     # only the clock-time callback: the family owns the events
    for ci, ch in enumerate(chunks(items, 2500)):
        sw.append(sweep_script("c12_sweep_%d" % ci, pre, ch))
    out = chk.run_stream(sw, prop="C12")
    res.append(fam("sweep(all/strided MJD at five carry settings; hour x minute x offset at boundary MJDs; error patterns; all group types/versions)", sw, out,
                   owns_events=True, extra_cov={"exhaustive_mjd": mstep == 1}))
    hist = []
    for i in range(scale(tier, 60, 300)):
        gg = Gen(rng)
        L = gg.preamble(register="random")
        for _ in range(scale(tier, 100, 150)):
            x = rng.random()
            if x < 0.05:
                L.append(gg.setting_line())
            elif x < 0.65:
                l = P(0, *ct_group(rng.choice([60369, 60370, rng.randrange(131072)]), rng.choice([0, 12, 23, rng.randrange(32)]), rng.choice([0, 30, 59, rng.randrange(64)]), rng.choice([0, 1, 0x21, rng.randrange(64)])))
                L.append(l)
                if rng.random() < 0.4:
                    L.append(l)          # the same report twice
            else:
                L.append(gg.parse_line())
        hist.append(("c12_hist_%d" % i, L))
    out = chk.run_stream(hist, prop="C12")
    res.append(fam("histories(repeated identical reports, reports after clear, CT callback registered/unregistered)", hist, out, owns_events=False))
    return res


def settings_of_lines(lines):
    """final values of the ten settings + registrations + user data written by the lines (generator's view)"""
    ext = 0
    prog = [0, 0, 0]
    corr = [[0, 0], [0, 0], [0, 0]]
    reg = {}
    ud = None
    for l in lines:
        t = l.split()
        if t[1] == "I":
            ext, prog, corr, reg, ud = 0, [0, 0, 0], [[0, 0], [0, 0], [0, 0]], {}, None
        elif t[1] == "X":
            ext = int(t[2])
        elif t[1] == "G":
            prog[int(t[2])] = int(t[3])
        elif t[1] == "T":
            corr[int(t[2])][int(t[3])] = min(int(t[4]), 2)
        elif t[1] == "R":
            reg[int(t[2])] = int(t[3])
        elif t[1] == "U":
            ud = int(t[2])
    out = []
    for t in range(3):
        out.append("T %d 0 %d" % (t, corr[t][0]))
        out.append("T %d 1 %d" % (t, corr[t][1]))
        out.append("G %d %d" % (t, prog[t]))
    for f, v in sorted(reg.items()):
        out.append("R %d %d" % (f, v))
    if ud is not None:
        out.append("U %d" % ud)
    out.append("X %d" % ext)
    return out


def run_C13(tier, rng, chk):
    st = []
    for i in range(scale(tier, 150, 1000)):
        gg = Gen(rng, k=0, heavy_special=(i % 5 == 0))
        pre = gg.history(rng.randrange(5, scale(tier, 80, 160)), settings_rate=0.08, register="random")
        pre = [l for l in pre if True]
        L = list(pre)
        L.append("0 C")
        # instance 1: fresh parser with the same settings
        L.append("1 I %d" % rng.choice([0, 255, 165]))
        for s in settings_of_lines(pre):
            L.append("1 " + s)
        L.append("?c 0 1")
        # the continuation may switch the check on (the settings in force are those at each input)
        for _ in range(scale(tier, 50, 90)):
            x = rng.random()
            if x < 0.08:
                l = gg.setting_line()
                if " I " in l:
                    continue
            else:
                # probes for hidden state: values of the same pools as the prefix, both RT flags
                l = gg.parse_line()
            L.append(l)
            L.append("1" + l[1:])
            L.append("? 0 1")
        st.append(("c13_twin_%d" % i, L))
    out = chk.run_stream(st, prop="C13", twin=True)
    res = [fam("twin runs(history; clear; suffix  vs  fresh parser with the same settings; same suffix probing candidates, AF candidates, last RT flag, cells)", st, out, twin=True)]
    # corner prefixes: each leaves one particular piece of hidden state behind, the suffix probes it
    st2 = []
    for i in range(scale(tier, 160, 1000)):
        gg = Gen(rng)
        kind = i % 8
        pi = rng.choice([0x3201, 0x9201, 0x1234])
        pre = ["0 I %d" % rng.choice([0, 255, 165])] + ["0 R %d %d" % (f, rng.randrange(1, 4)) for f in range(12) if rng.random() < 0.85]
        pre.append("0 U %d" % rng.randrange(1, 1000))
        probe = []
        fl = rng.randrange(2)
        ebq = rng.choice([1, 2])
        grp0 = (pi, mkB(0, 0, 1, 7, 0b01001), 0x0190, 0x4142)
        grp1 = (pi, mkB(1, 0, 1, 7, 0), 0x00E2, 0)
        rtg = lambda f, e, w=0x4142: P(0, pi, mkB(2, rng.randrange(2), 1, 7, (f << 4) | rng.randrange(4)), w, 0x4344, (0, e, 0, 0))
        if kind == 0:      # RT text stored while no flag has been seen (corrected block B only)
            pre += ["0 T 1 0 %d" % ebq] + [rtg(rng.randrange(2), ebq) for _ in range(rng.randrange(1, 5))]
            probe = [rtg(f, e) for f in (0, 1) for e in (0, ebq)]
        elif kind == 1:    # stable station in normal mode; the check is switched on after the reset
            pre += [P(0, *grp0), P(0, *grp0), P(0, *grp1), P(0, *grp1)]
            probe = ["0 X 1", P(0, *grp0), P(0, *grp1), P(0, *grp0), P(0, *grp1)]
        elif kind == 2:    # check on, candidates pending
            pre += ["0 X 1", P(0, *grp0), P(0, *grp1)]
            probe = [P(0, *grp0), P(0, *grp1), P(0, *grp0)]
        elif kind == 3:    # check on, accepted values + candidates of other values
            pre += ["0 X 1", P(0, *grp0), P(0, *grp0), P(0, 0x5555, mkB(0, 0, 0, 3, 0), 0x0205, 0x5152)]
            probe = [P(0, 0x5555, mkB(0, 0, 0, 3, 0), 0x0205, 0x5152), P(0, *grp0)]
        elif kind == 4:    # a flag has been seen; after the reset a corrected block B with the other flag
            pre += ["0 T 1 0 %d" % ebq, rtg(fl, 0)]
            probe = [rtg(1 - fl, ebq), rtg(fl, ebq), rtg(1 - fl, 0)]
        elif kind == 5:    # clock time reported, the same report again after the reset
            ct = P(0, *ct_group(rng.choice([60369, 0, 125811]), rng.randrange(24), rng.randrange(60), rng.randrange(64)))
            pre += [ct]
            probe = [ct, P(0, *ct_group(0, 0, 0, 0))]
        elif kind == 6:    # progressive cells at good levels, worse receptions after the reset
            pre += ["0 G 0 1", "0 G 1 1", "0 G 2 1", "0 T 0 1 2", "0 T 1 1 2", "0 T 2 1 2", P(0, *grp0), rtg(fl, 0), P(0, pi, mkB(10, 0, 1, 7, 0), 0x4142, 0x4344)]
            probe = [P(0, pi, grp0[1], grp0[2], 0x5152, (0, 0, 0, 2)), P(0, pi, mkB(2, 0, 1, 7, fl << 4), 0x5152, 0x5354, (0, 0, 2, 2)), P(0, pi, mkB(10, 0, 1, 7, 0), 0x5152, 0x5354, (0, 0, 1, 2))]
        else:              # both RT buffers filled, AF list, ECC
            pre += [rtg(0, 0), rtg(1, 0), rtg(0, 0), P(0, *grp0), P(0, *grp1)]
            probe = [rtg(1, 0), rtg(0, 0), P(0, *grp0), P(0, *grp1)]
        for _ in range(rng.randrange(0, 4)):
            pre.insert(rng.randrange(2, len(pre) + 1), gg.parse_line(rng.choice(["other", "0B", "10A", "4A"])))
        L = list(pre)
        L.append("0 C")
        L.append("1 I %d" % rng.choice([0, 255, 165]))
        for sl in settings_of_lines(pre):
            L.append("1 " + sl)
        L.append("?c 0 1")
        for l in probe + [gg.parse_line() for _ in range(rng.randrange(2, 10))]:
            L.append(l)
            L.append("1" + l[1:])
            L.append("? 0 1")
        st2.append(("c13_corner_%d_k%d" % (i, kind), L))
    out = chk.run_stream(st2, prop="C13", twin=True)
    res.append(fam("corner prefixes(RT text with no flag seen, candidates pending, check switched on after the reset, stale flag, repeated clock time, progressive levels)", st2, out, twin=True))
    return res


def malformed_strings(rng, tier):
    good16 = "1234ABCD5678ef90"
    good18 = "1234ABCD5678ef901B"
    out = []
    for base in (good16, good18):
        for pos in range(len(base)):
            for byte in range(1, 256):
                if tier == "quick" and (byte * 7 + pos) % 5 and not (byte < 0x30 or chr(byte) in " +-xXgG@`:/"):
                    continue
                bs = bytearray(base.encode())
                bs[pos] = byte
                out.append(bytes(bs))
    for n in list(range(0, 41)) + [272, 274, 528, 530, 1000, 4000]:
        out.append(b"A" * n)
        out.append(("1234ABCD5678ef90" + "1B" * n)[:n].encode())
    out += [b" 234567890123456", b"-234567890123456", b"+234567890123456", b"0x12567890123456", b"123456789012 456",
            b"1234567890123456-1", b"1234567890123456 1", b"1234567890123456+f", b"\n", b"\r", b"\r\n", b"1234567890123456\n", b"1234567890123456\r\n",
            b"12345678901234567", b"123456789012345"]
    return out


def run_C14(tier, rng, chk):
    res = []
    st = []
    mal = malformed_strings(rng, tier)
    pre = ["0 I 0"] + ["0 R %d 1" % f for f in range(12)] + warm_lines(Gen(rng))
    for ci, ch in enumerate(chunks(mal, 1500)):
        L = list(pre)
        for s in ch:
            L.append(S_hex(0, s))
        L.append("0 S NULL")
        st.append(("c14_malformed_%d" % ci, L))
    out = chk.run_stream(st, prop="C14")
    res.append(fam("malformed stream(every single-position corruption of 16/18-character strings, all lengths 0..40 and long strings, NULL)", st, out,
                   owned_keys=["ret"]))
    tw = []
    for i in range(scale(tier, 100, 700)):
        gg = Gen(rng, heavy_special=(i % 3 == 0))
        L = []
        for l in gg.preamble(register="all"):
            L.append(l)
            L.append("1" + l[1:])
        for _ in range(scale(tier, 100, 160)):
            grp = gg.group()
            e = tuple(rng.choice([0, 0, 1, 2, 3]) for _ in range(4))
            s = "%04X%04X%04X%04X" % grp
            s = "".join(ch.lower() if rng.random() < 0.5 else ch for ch in s)
            if any(e) or rng.random() < 0.5:
                s += ("%02X" if rng.random() < 0.5 else "%02x") % ((e[0] << 6) | (e[1] << 4) | (e[2] << 2) | e[3])
            L.append(S_hex(0, s))
            L.append(P(1, *grp, e))
            L.append("?4 0 1")
        tw.append(("c14_twin_%d" % i, L))
    out = chk.run_stream(tw, prop="C14", twin=True)
    res.append(fam("twin runs(string input vs rdsparser_parse with the decoded blocks and error levels)", tw, out, twin=True))
    return res


def run_C15(tier, rng, chk):
    st = []
    for i in range(scale(tier, 120, 800)):
        gg = Gen(rng, heavy_special=(i % 4 == 0))
        L = []
        pre = gg.preamble(register="none")
        for l in pre:
            L.append(l)
            if " U " not in l:
                L.append("1" + l[1:])
        mode = rng.choice(["none-vs-all", "random", "random"])
        if mode == "none-vs-all":
            for f in range(12):
                L.append("1 R %d %d" % (f, rng.randrange(1, 4)))
        for _ in range(scale(tier, 120, 200)):
            x = rng.random()
            if x < 0.12:
                k = rng.randrange(2)
                L.append(rng.choice(["%d R %d %d" % (k, rng.randrange(12), rng.randrange(4)), "%d U %d" % (k, rng.randrange(1, 1000))]))
                continue
            if x < 0.17:
                l = rng.choice(["0 T %d %d %d" % (rng.randrange(3), rng.randrange(2), rng.randrange(4)), "0 G %d %d" % (rng.randrange(3), rng.randrange(2)),
                                "0 X %d" % rng.randrange(2), "0 C"])
            else:
                l = gg.parse_line()
            L.append(l)
            L.append("1" + l[1:])
            L.append("?s 0 1")
        st.append(("c15_twin_%d" % i, L))
    out = chk.run_stream(st, prop="C15", twin=True)
    res = [fam("twin runs(same stream, different observer sets changing over time; handle index and user-data token of every callback)", st, out, twin=True)]
    # re-entrancy: callbacks of instance 0 register / unregister / replace callbacks and set the user
    # data from INSIDE the callback; the model (Reent.v: step_reent) replays the notifications of
    # the call through the evolving table; instance 1 gets the same stream without any script and
    # must show the same getter results
    rs = []
    for i in range(scale(tier, 100, 700)):
        gg = Gen(rng, heavy_special=(i % 5 == 0))
        L = []
        for l in gg.preamble(register="none"):
            L.append(l)
            if " U " not in l:
                L.append("1" + l[1:])
        # the twin: every callback registered (function 1), no script, its own user data
        for f in range(12):
            L.append("1 R %d 1" % f)
        L.append("1 U 4242")
        for f in range(12):
            if rng.random() < 0.8:
                L.append("0 R %d %d" % (f, rng.randrange(1, 4)))
        for cid in (1, 2, 3):
            for _ in range(rng.choice([0, 1, 1, 2, 3])):
                if rng.random() < 0.7:
                    # mostly fields notified later in the same call than the usual trigger (TA/MS -> PS -> AF; PI -> PTY ...)
                    L.append("0 Y %d R %d %d" % (cid, rng.choice([8, 8, 7, 9, 10, 1, 2, 3, 4, 6, rng.randrange(12)]), rng.randrange(4)))
                else:
                    L.append("0 Y %d U %d" % (cid, rng.randrange(1, 1000)))
        for _ in range(scale(tier, 100, 160)):
            x = rng.random()
            if x < 0.15:
                L.append(rng.choice(["0 R %d %d" % (rng.randrange(12), rng.randrange(4)), "0 U %d" % rng.randrange(1, 1000)]))
                continue
            if x < 0.19:
                l = rng.choice(["0 T %d %d %d" % (rng.randrange(3), rng.randrange(2), rng.randrange(4)), "0 G %d %d" % (rng.randrange(3), rng.randrange(2)),
                                "0 X %d" % rng.randrange(2), "0 C"])
            else:
                l = gg.parse_line(rng.choice([None, None, "0A", "0B", "1A"]))
            L.append(l)
            L.append("1" + l[1:])
            L.append("?s 0 1")
            L.append("?r 0 1")
        rs.append(("c15_reent_%d" % i, L))
    out = chk.run_stream(rs, prop="-", twin=True)
    res.append(fam("re-entrant registration (callbacks call rdsparser_register_* / set_user_data on their own parser from inside the callback; "
                   "expected notifications = replay (Reent.v) of the notifications of a twin with every callback registered, through the "
                   "evolving table: both sides from the library, so decoding cancels out)", rs, out, twin=True, observer="-"))
    return res


def run_C16(tier, rng, chk):
    res = []
    hist = []
    for i in range(scale(tier, 100, 700)):
        gg = Gen(rng, heavy_special=(i % 2 == 0))
        L = gg.preamble(register="random")
        for _ in range(scale(tier, 140, 220)):
            x = rng.random()
            if x < 0.08:
                L.append(gg.setting_line())
            elif x < 0.1:
                L.append("0 T %d %d %d" % (rng.randrange(3), rng.randrange(2), rng.choice([3, 4, 5, 200, 255])))
            else:
                L.append(gg.parse_line(rng.choice([None, "0A", "2A", "2B", "10A"])))
        hist.append(("c16_hist_%d" % i, L))
    for variant in ("hu", "xu", "hn"):
        out = chk.run_stream(hist, prop="C16", variant=variant)
        res.append(fam("histories(%s build: garbage-prefilled storage, thresholds 3..255, error codes up to 255, special bytes)" % variant, hist, out, variant=variant))
    st = hammer_scripts(rng, tier, "c16_pairs", None, single_flag=False, n_scripts=(40, 250))
    out = chk.run_stream(st, prop="C16")
    res.append(fam("pairs whose first character is rejected and second accepted (odd cells only), end-of-text markers", st, out))
    return res


def run_C17(tier, rng, chk):
    res = []
    sw = []
    keys = [("T", t, ty) for t in range(3) for ty in range(2)] + [("G", t, None) for t in range(3)] + [("X", None, None)]
    for (kk, t, ty) in keys:
        L = ["0 I %d" % rng.choice([0, 255])]
        # every other key pre-set to a distinct value
        for (k2, t2, ty2) in keys:
            if k2 == "T":
                L.append("0 T %d %d %d" % (t2, ty2, (t2 + ty2) % 3))
            elif k2 == "G":
                L.append("0 G %d %d" % (t2, (t2 + 1) % 2))
        L += warm_lines(Gen(rng))
        vals = range(256) if kk == "T" else (0, 1, 1, 0)
        for v in vals:
            if kk == "T":
                L.append("0 T %d %d %d" % (t, ty, v))
            elif kk == "G":
                L.append("0 G %d %d" % (t, v))
            else:
                L.append("0 X %d" % v)
            if rng.random() < 0.1:
                L.append(Gen(rng).parse_line())
            if rng.random() < 0.05:
                L.append("0 C")
        sw.append(("c17_key_%s_%s_%s" % (kk, t, ty), L))
    out = chk.run_stream(sw, prop="C17")
    res.append(fam("sweep(every key x every 8-bit value with every other key pre-set to a distinct value, parse/clear interleaved)", sw, out, owned_keys=["cfg"]))
    hist = []
    for i in range(scale(tier, 80, 500)):
        gg = Gen(rng)
        L = gg.preamble(register="random")
        for _ in range(scale(tier, 120, 200)):
            if rng.random() < 0.45:
                L.append(gg.setting_line())
            else:
                L.append(gg.parse_line())
        hist.append(("c17_hist_%d" % i, L))
    out = chk.run_stream(hist, prop="C17")
    res.append(fam("histories(setter calls in every order interleaved with parse/clear/init)", hist, out, owned_keys=["cfg"]))
    # writing a setting changes that setting and nothing else: instance 0 is told, between the
    # groups, to set keys to the value they already have; instance 1 gets the same stream without
    # those calls; every getter must agree after every group (both sides from the library, so
    # decoding cancels out: what remains is what the redundant setter calls did)
    tw = []
    for i in range(scale(tier, 100, 600)):
        gg = Gen(rng, heavy_special=(i % 4 == 0))
        L = ["0 I %d" % rng.choice([0, 255]), "1 I %d" % rng.choice([0, 255])]
        cur = {"X": rng.randrange(2)}
        for k in (0, 1):
            L.append("%d X %d" % (k, cur["X"]))
        for t in range(3):
            cur[("G", t)] = rng.randrange(2)
            for ty in range(2):
                cur[("T", t, ty)] = rng.randrange(3)
        for k in (0, 1):
            for t in range(3):
                L.append("%d G %d %d" % (k, t, cur[("G", t)]))
                for ty in range(2):
                    L.append("%d T %d %d %d" % (k, t, ty, cur[("T", t, ty)]))
            for f in range(12):
                L.append("%d R %d 1" % (k, f))

        def redundant():
            key = rng.choice(list(cur.keys()))
            if key == "X":
                return "0 X %d" % cur["X"]
            if key[0] == "G":
                return "0 G %d %d" % (key[1], cur[key])
            return "0 T %d %d %d" % (key[1], key[2], cur[key])
        for _ in range(scale(tier, 120, 200)):
            x = rng.random()
            if x < 0.06:
                # a real change, on both
                key = rng.choice(list(cur.keys()))
                if key == "X":
                    cur["X"] ^= 1
                    l = "0 X %d" % cur["X"]
                elif key[0] == "G":
                    cur[key] ^= 1
                    l = "0 G %d %d" % (key[1], cur[key])
                else:
                    cur[key] = rng.randrange(3)
                    l = "0 T %d %d %d" % (key[1], key[2], cur[key])
            elif x < 0.08:
                l = "0 C"
            else:
                l = gg.parse_line()
            L.append(l)
            L.append("1" + l[1:])
            if rng.random() < 0.45:
                for _ in range(rng.choice([1, 1, 2, 3])):
                    L.append(redundant())
            L.append("?s 0 1")
        tw.append(("c17_idem_%d" % i, L))
    out = chk.run_stream(tw, prop="-", twin=True)
    res.append(fam("twin runs(setters called again with the value the key already has, between the groups, vs the same stream without those calls: "
                   "every getter agrees after every group)", tw, out, twin=True, observer="-"))
    return res


# ---------------------------------------------------------------------------------------
def run_C05(tier, rng, chk):
    res = []
    st = []
    # every bit pattern of block B on the text groups, error-free data (index arithmetic)
    step = scale(tier, 5, 1)
    pre = ["0 I 255"] + ["0 R %d 1" % f for f in range(12)]
    for t in range(3):
        pre += ["0 T %d 0 255" % t, "0 T %d 1 255" % t]
    items = [P(0, 0x1234, b, 0x4142, 0x4344, (0, rng.choice([0, 0, 1, 2]), 0, 0)) for b in range(rng.randrange(step), 65536, step)]
    for ci, ch in enumerate(chunks(items, 3000)):
        L = list(pre)
        L += ch
        st.append(("c05_allB_%d" % ci, L))
    # every ECC with every PI country nibble (table indices), every AF code pair with a fixed partner
    items = []
    for nib in range(16):
        for ecc in range(256):
            items.append(P(0, (nib << 12) | 0x201, mkB(1, 0), ecc, 0))
    for af in range(256):
        items.append(P(0, 0x1000, mkB(0, 0), (af << 8) | 1, 0x2020))
        items.append(P(0, 0x1000, mkB(0, 0), (1 << 8) | af, 0x2020))
    for ci, ch in enumerate(chunks(items, 2400)):
        st.append(("c05_tables_%d" % ci, list(pre) + ch))
    # first type-2 groups after reset with a corrected block B, thresholds raised; all flags
    for i in range(scale(tier, 30, 200)):
        gg = Gen(rng)
        L = ["0 I %d" % rng.choice([0, 255, 165])]
        for t in range(3):
            L += ["0 T %d 0 %d" % (t, rng.choice([1, 2, 255])), "0 T %d 1 %d" % (t, rng.choice([1, 2, 255]))]
        for _ in range(scale(tier, 40, 80)):
            if rng.random() < 0.1:
                L.append("0 C")
            else:
                L.append(gg.parse_line(rng.choice(["2A", "2B", "0A", "10A"]), (rng.randrange(4), rng.choice([1, 2, 0, 3, 255]), rng.choice([0, 1, 2, 255]), rng.choice([0, 1, 2, 255]))))
        st.append(("c05_reset_rt_%d" % i, L))
    # error codes 4..255, thresholds 0..255
    for i in range(scale(tier, 40, 300)):
        gg = Gen(rng, heavy_special=True)
        gg.err = lambda r=rng: r.choice([0, 1, 2, 3, 4, 5, 127, 128, 254, 255])
        L = gg.preamble(register="all")
        for _ in range(scale(tier, 100, 200)):
            if rng.random() < 0.1:
                L.append("0 T %d %d %d" % (rng.randrange(3), rng.randrange(2), rng.randrange(256)))
            elif rng.random() < 0.05:
                L.append(gg.setting_line())
            else:
                g4 = gg.group()
                L.append(P(0, *g4, (gg.err(), gg.err(), gg.err(), gg.err())))
        st.append(("c05_codes_%d" % i, L))
    # malformed strings
    mal = malformed_strings(rng, tier)
    for ci, ch in enumerate(chunks(mal, 1500)):
        L = ["0 I 0"]
        for s in ch:
            L.append(S_hex(0, s))
        L.append("0 S NULL")
        st.append(("c05_strings_%d" % ci, L))
    # allocation failure, free(NULL), many instances
    L = []
    for k in range(8):
        L.append("%d N %d" % (k, k % 2))
    for k in range(8):
        if k % 2:
            L.append(P(k, 0x1234, mkB(0, 0), 0x0101, 0x4142))
    for k in range(8):
        L.append("%d F" % k)
        L.append("%d F" % k)
    st_heap = [("c05_alloc", L)]
    for (variant, san) in (("hu", "asan"), ("hn", "asan"), ("xu", "asan"), ("hu", "msan"), ("xn", "msan")):
        ss = st + (st_heap if variant.startswith("h") else [])
        out = chk.run_stream(ss, prop="C05", variant=variant, san=san)
        res.append(fam(("MemorySanitizer (clang, caller storage poisoned before init) " if san == "msan" else "ASan+UBSan ") + "%s build: all block-B bit patterns, reset-then-corrected type-2 groups, error codes/thresholds up to 255, malformed strings, allocation failure" % variant,
                       ss, out, variant=variant, san=san, crash_is_violation=True, owned_keys=["crash", "alive"]))
    if tier == "thorough":
        # valgrind memcheck (uninitialised reads) on a subset, plain build
        harness = chk.ensure_harness("hu")
        import os
        wd = os.path.join(chk.OUTDIR, "vg_%d" % os.getpid())
        os.makedirs(wd, exist_ok=True)
        sub = st[:6] + st_heap
        p = os.path.join(wd, "vg.script")
        streams.write_stream(p, sub)
        rc, o, e = chk.sh(["valgrind", "--error-exitcode=97", "--track-origins=yes", "-q", harness, p], timeout=3000)
        ev = []
        if rc == 97 or "Invalid" in e or "uninitialised" in e:
            ev.append({"kind": "crash", "detail": {"rc": rc, "stderr": e[-3000:]}, "family": "valgrind", "found_input": False})
        res.append(fam("valgrind memcheck --track-origins on a subset (plain build)", sub, None, extra_violations=ev))
        import shutil
        shutil.rmtree(wd, ignore_errors=True)
    return res


# ---------------------------------------------------------------------------------------
# C18: the lookup graphs themselves are in Gen.v; the obligations are kernel-evaluated facts.
def parse_gen_tables(chk):
    import os, re
    g = open(os.path.join(chk.COQB, "Gen.v")).read()

    def lists(name):
        m = re.search(r"Definition %s : list \(list Z\) := \[(.*?)\]%%Z\." % name, g, re.S)
        if not m:
            return []
        out = []
        for item in re.findall(r"\[([^\]]*)\]", m.group(1)):
            vals = [int(x) for x in item.split(";") if x.strip() != ""]
            out.append(None if vals == [-1] else bytes(v & 255 for v in vals).decode("latin-1"))
        return out
    enum = [(e, int(v)) for e, v in re.findall(r'\("(RDSPARSER_COUNTRY_\w+)"%string, (\d+)%Z\)', g)]
    tabs = {t: lists(t) for t in ("pty_rds_name", "pty_rbds_name", "pty_rds_short", "pty_rbds_short", "pty_rds_long", "pty_rbds_long",
                                  "country_name", "country_iso")}
    return enum, tabs


def parse_ref_tables(chk):
    import os, re
    r = open(os.path.join(chk.VERIF, "coq", "Ref_Tables.v")).read()
    country = {e: (n, i) for e, n, i in re.findall(r'\("(RDSPARSER_COUNTRY_\w+)", "([^"]*)", "([^"]*)"\)', r)}
    pty = {}
    for t in ("pty_rds_name", "pty_rbds_name", "pty_rds_short", "pty_rbds_short", "pty_rds_long", "pty_rbds_long"):
        m = re.search(r"Definition ref_%s : list string := \[(.*?)\]\." % t, r, re.S)
        pty[t] = re.findall(r'"([^"]*)"', m.group(1))
    return country, pty


def run_C18(tier, rng, chk):
    import os, json
    enum, tabs = parse_gen_tables(chk)
    refc, refp = parse_ref_tables(chk)
    viol = []
    n_eval = 0

    def bad(call, expected, observed):
        viol.append({"kind": "lookup", "found_input": True, "family": "lookup graphs", "detail": {"call": call, "expected": expected, "observed": observed},
                     "input": call, "expected": expected, "observed": observed})
    errs = {}
    try:
        errs = json.load(open(os.path.join(chk.BUILD, "gen", "section_errors.json")))
    except OSError:
        pass
    for sec, e in errs.items():
        bad("%s lookup, dumper call '%s' aborted" % (sec, e.get("call")), "a non-NULL constant string", "abort: " + e.get("stderr", "")[-600:])
    for t, ref in refp.items():
        tbl = tabs.get(t, [])
        rbds = "true" if "rbds" in t else "false"
        fn = "rdsparser_pty_lookup_" + t.split("_")[-1]
        for i in range(min(256, len(tbl))):
            n_eval += 1
            arg = i if i < 128 else i - 256
            exp = ref[arg] if 0 <= arg < 32 else "Unknown"
            if tbl[i] != exp:
                bad("%s(%d, %s)" % (fn, arg, rbds), exp, tbl[i])
            if 0 <= arg < 32 and tbl[i] is not None:
                lim = 8 if "short" in t else (16 if "long" in t else 1000)
                if len(tbl[i]) > lim:
                    bad("%s(%d, %s)" % (fn, arg, rbds), "at most %d characters" % lim, tbl[i])
    names, isos = tabs.get("country_name", []), tabs.get("country_iso", [])
    val2e = {v: e for e, v in enum}
    for v in range(min(256, len(names), len(isos))):
        n_eval += 2
        if 1 <= v <= 220:
            e = val2e.get(v)
            exp = refc.get(e)
            if exp is None:
                bad("enumerator with value %d" % v, "an enumerator of the reference table", str(e))
                continue
            if names[v] != exp[0]:
                bad("rdsparser_country_lookup_name(%s /* %d */)" % (e, v), exp[0], names[v])
            if isos[v] != exp[1]:
                bad("rdsparser_country_lookup_iso(%s /* %d */)" % (e, v), exp[1], isos[v])
        else:
            if names[v] != "Unknown":
                bad("rdsparser_country_lookup_name(%d)" % v, "Unknown", names[v])
            if isos[v] != "??":
                bad("rdsparser_country_lookup_iso(%d)" % v, "??", isos[v])
    sample = [{"call": "rdsparser_country_lookup_iso(%s)" % e, "result": isos[v] if v < len(isos) else None} for e, v in enum[1:4]]
    return [fam("complete lookup graphs (256 arguments x 6 PTY tables, 256 x 2 country tables), dumped from the compiled library under ASan+UBSan",
                [], None, extra_violations=viol[:8], counts={"evaluations": n_eval, "observed": n_eval},
                extra_cov={"exhaustive": True, "samples": sample})]


# ---------------------------------------------------------------------------------------
# C19: isolation and determinism, on the implementation alone
def trace_by_instance(path, want):
    """the part of a harness trace that concerns instance `want`: events it received, its return
    values and its snapshot deltas, in order; a delta of `want` during a call on ANOTHER instance is
    reported separately"""
    seq = []
    return seq


def split_trace(text):
    """-> list of scripts, each a list of ops, each op = list of lines"""
    scripts = []
    cur = None
    for l in text.splitlines():
        if l.startswith("= "):
            cur = []
            scripts.append((l[2:], cur))
        elif l.startswith("O "):
            cur.append([])
        elif cur is not None and cur:
            cur[-1].append(l)
    return scripts


def run_C19(tier, rng, chk):
    import os, subprocess, shutil
    res = []
    wd = os.path.join(chk.OUTDIR, "c19_%d" % os.getpid())
    os.makedirs(wd, exist_ok=True)
    harness = chk.ensure_harness("hu")
    viol = []
    n_inst = 4
    n_scripts = scale(tier, 40, 300)
    solo_all = []
    inter_all = []
    n_ops = 0
    for i in range(n_scripts):
        solos = []
        for k in range(n_inst):
            gg = Gen(rng, k=k, heavy_special=(k == 3))
            L = gg.history(rng.randrange(20, scale(tier, 90, 160)), settings_rate=0.08, register="random")
            if rng.random() < 0.5:
                L[0] = "%d N 1" % k
            # identical groups on several instances (lock-step feeding), repeated reports
            solos.append(L)
        if rng.random() < 0.7:
            # instance 1 is fed the same stream as instance 0 (dual tuner on one programme)
            solos[1] = [("1" + l[1:]) for l in solos[0]]
        # random interleaving that keeps each instance's own order
        idx = [0] * n_inst
        inter = []
        lockstep = rng.random() < 0.5
        while any(idx[k] < len(solos[k]) for k in range(n_inst)):
            if lockstep:
                for k in range(n_inst):
                    if idx[k] < len(solos[k]):
                        inter.append(solos[k][idx[k]])
                        idx[k] += 1
            else:
                k = rng.choice([k for k in range(n_inst) if idx[k] < len(solos[k])])
                for _ in range(rng.randrange(1, 4)):
                    if idx[k] < len(solos[k]):
                        inter.append(solos[k][idx[k]])
                        idx[k] += 1
        inter_all.append(("c19_inter_%d" % i, inter))
        for k in range(n_inst):
            solo_all.append(("c19_solo_%d_%d" % (i, k), solos[k]))
        n_ops += len(inter)

    def run(hbin, stream, name, env=None):
        p = os.path.join(wd, name + ".script")
        streams.write_stream(p, stream)
        e = dict(os.environ)
        if env:
            e.update(env)
        pr = subprocess.run([hbin, p], stdout=subprocess.PIPE, stderr=subprocess.PIPE, env=e, timeout=1200)
        return pr.returncode, pr.stdout.decode("utf-8", "replace"), pr.stderr.decode("utf-8", "replace")
    rc1, t_inter, e1 = run(harness, inter_all, "inter")
    rc2, t_solo, e2 = run(harness, solo_all, "solo")
    if rc1 or rc2:
        viol.append({"kind": "crash", "found_input": False, "family": "interleaving", "detail": {"rc": [rc1, rc2], "stderr": (e1 + e2)[-2000:]}})
    inter_tr = split_trace(t_inter)
    solo_tr = dict(split_trace(t_solo))
    compared = 0
    for (name, ops), (_, lines) in zip(inter_tr, inter_all):
        i = int(name.split("_")[-1])
        oplines = [l for l in lines if l and l[0] not in "?#="]
        per = {k: [] for k in range(n_inst)}
        stray = None
        for opl, out_lines in zip(oplines, ops):
            k = int(opl.split()[0])
            mine = []
            for l in out_lines:
                t = l.split()
                if l.startswith("D "):
                    if int(t[1]) != k and stray is None:
                        stray = (opl, l)
                    if int(t[1]) == k:
                        mine.append(l)
                elif l.startswith("E "):
                    if int(t[4]) != k and stray is None:
                        stray = (opl, l)
                    mine.append(l)
                else:
                    mine.append(l)
            per[k].append(mine)
        if stray:
            viol.append({"kind": "isolation", "found_input": True, "family": "interleaving", "stream": inter_all, "variant": "hu", "observer": "-",
                         "detail": {"script": name, "what": "a call on one instance changed or notified another instance", "call": stray[0], "effect": stray[1][:300]},
                         "script_lines": lines})
            continue
        for k in range(n_inst):
            solo_ops = solo_tr.get("c19_solo_%d_%d" % (i, k), [])
            compared += 1
            if per[k] != solo_ops:
                first = next((j for j, (x, y) in enumerate(zip(per[k], solo_ops)) if x != y), min(len(per[k]), len(solo_ops)))
                viol.append({"kind": "isolation", "found_input": True, "family": "interleaving", "stream": inter_all, "variant": "hu", "observer": "-",
                             "detail": {"script": name, "instance": k, "own_op_index": first,
                                        "interleaved": per[k][first][:6] if first < len(per[k]) else None,
                                        "solo": solo_ops[first][:6] if first < len(solo_ops) else None},
                             "script_lines": lines})
                break
    res.append(fam("interleaving(4 instances, lock-step and random schedules, one stream fed to two instances) vs each instance solo, on the implementation",
                   inter_all, None, extra_violations=viol[:4], counts={"evaluations": n_ops, "observed": compared, "scripts": len(inter_all)},
                   extra_cov={"samples": [{"family": "interleaving", "script": inter_all[0][0], "first_ops": inter_all[0][1][:10]}]}))
    # determinism: a second process, other heap contents
    viol2 = []
    rc3, t_again, e3 = run(harness, inter_all, "again", env={"MALLOC_PERTURB_": "165"})
    if t_again != t_inter:
        la, lb = t_inter.splitlines(), t_again.splitlines()
        j = next((x for x in range(min(len(la), len(lb))) if la[x] != lb[x]), min(len(la), len(lb)))
        viol2.append({"kind": "determinism", "found_input": False, "family": "two processes",
                      "detail": {"what": "the same call sequence gave different traces in two processes", "line": j,
                                 "first": la[j][:300] if j < len(la) else None, "second": lb[j][:300] if j < len(lb) else None}})
    res.append(fam("determinism(the same scripts in a second process with MALLOC_PERTURB_)", [], None, extra_violations=viol2,
                   counts={"evaluations": n_ops, "observed": len(inter_all), "scripts": len(inter_all)}))
    # one instance per thread under ThreadSanitizer, traces compared with the solo traces
    viol3 = []
    try:
        hmt = chk.ensure_harness("hu", "tsan")
        paths = []
        nthreads = scale(tier, 8, 16)
        rounds = scale(tier, 2, 6)
        checked = 0
        for rd in range(rounds):
            paths = []
            for t in range(nthreads):
                nm, lines = solo_all[(rd * nthreads + t) % len(solo_all)]
                p = os.path.join(wd, "mt_%d_%d.script" % (rd, t))
                streams.write_stream(p, [(nm, lines)])
                paths.append((p, nm))
            e = dict(os.environ)
            e["TSAN_OPTIONS"] = "halt_on_error=0:exitcode=66:report_signal_unsafe=0"
            pr = subprocess.run([hmt] + [p for p, _ in paths], stdout=subprocess.PIPE, stderr=subprocess.PIPE, env=e, timeout=1200)
            err = pr.stderr.decode("utf-8", "replace")
            if pr.returncode != 0:
                viol3.append({"kind": "datarace", "found_input": False, "family": "threads",
                              "detail": {"what": "ThreadSanitizer report / abort with one instance per thread", "rc": pr.returncode, "stderr": err[:3000]}})
                break
            for p, nm in paths:
                got = open(p + ".mt").read()
                exp_ops = solo_tr.get(nm)
                got_ops = dict(split_trace(got)).get(nm)
                checked += 1
                if exp_ops != got_ops:
                    viol3.append({"kind": "threads", "found_input": False, "family": "threads",
                                  "detail": {"what": "an instance driven from its own thread reported something else than solo", "script": nm}})
                    break
        res.append(fam("threads(one instance per thread, %d threads, ThreadSanitizer build) vs solo traces" % nthreads, [], None, extra_violations=viol3[:2],
                       counts={"evaluations": checked, "observed": checked}))
    except chk.BuildError as ex:
        res.append(fam("threads(ThreadSanitizer build)", [], None, extra_violations=[{"kind": "build", "found_input": False, "detail": ex.detail[-1500:]}], counts={}))
    # static obligation: no writable object of static storage duration in the library
    viol4 = []
    od = os.path.join(wd, "obj")
    os.makedirs(od, exist_ok=True)
    syms = []
    for c in chk.lib_c_files():
        o = os.path.join(od, os.path.basename(c) + ".o")
        # not position independent: constant tables of pointers then live in .rodata ('r'), only
        # objects that really are writable show up as 'd' / 'b'
        rc, so, se = chk.sh(["gcc", "-O0", "-fno-pic", "-fno-pie", "-c"] + chk.INC + [c, "-o", o])
        if rc != 0:
            continue
        rc, so, se = chk.sh(["nm", o])
        for l in so.splitlines():
            t = l.split()
            if len(t) >= 3 and t[-2] in "bBdDcC":
                syms.append((os.path.basename(c), t[-2], t[-1]))
    allowed = set(l.strip() for l in open(os.path.join(chk.VERIF, "tools", "static_allowlist.txt")) if l.strip() and not l.startswith("#"))
    for (f, ty, name) in syms:
        if name not in allowed:
            viol4.append({"kind": "static", "found_input": False, "family": "static scan",
                          "detail": {"what": "writable object of static storage duration in the library", "file": f, "symbol": name, "section": ty}})
    res.append(fam("static scan(nm: no .bss/.data symbol in the library objects beyond the constant pointer tables)", [], None, extra_violations=viol4[:3],
                   counts={"evaluations": len(syms), "observed": len(syms)}, extra_cov={"writable_static_symbols": [s[2] for s in syms]}))
    shutil.rmtree(wd, ignore_errors=True)
    return res


# ---------------------------------------------------------------------------------------
# C20: the four build configurations
def collision_free_history(rng, n, k=0):
    """a history in which the unicode -> narrow character map is injective on the bytes used:
    either no byte >= 0x7F, or exactly one such byte value and no blank (0x20)"""
    gg = Gen(rng, k=k)
    special = rng.choice([None, rng.randrange(0x7F, 0x100)])
    pool = [b for b in range(0x21, 0x7F)] if special is not None else [b for b in range(0x20, 0x7F)]

    def byte():
        x = rng.random()
        if special is not None and x < 0.25:
            return special
        if x < 0.85:
            return rng.choice(pool)
        if x < 0.93:
            return 0x0D
        return rng.randrange(0, 0x20)
    gg.byte = byte
    gg.word = lambda: (byte() << 8) | byte()
    return gg.history(n, settings_rate=0.08, register="random")


def narrow_map(chk):
    """stored unicode code point -> stored narrow character, from the measured graphs in Gen.v"""
    import os, re
    g = open(os.path.join(chk.COQB, "Gen.v")).read()

    def zl(name):
        m = re.search(r"Definition %s : list Z := \[(.*?)\]%%Z\." % name, g, re.S)
        return [int(x) for x in re.findall(r"-?\d+", m.group(1))] if m else []
    cu, cn = zl("conv_unicode"), zl("conv_narrow")
    mp = {}
    for b in range(min(len(cu), len(cn))):
        if cu[b] >= 0 and cn[b] >= 0:
            mp.setdefault(cu[b], cn[b])
    return mp


def narrow_trace(text, mp):
    """rewrite the character lists of a unicode-build trace through the narrow map"""
    out = []
    for l in text.splitlines():
        t = l.split(" ")
        if (l.startswith("D ") and len(t) >= 8 and t[2] in ("ps", "rt0", "rt1", "ptyn")):
            t[6] = ",".join(str(mp.get(int(c), int(c))) for c in t[6].split(","))
            l = " ".join(t)
        elif l.startswith("E ") and " | " in l:
            left, right = l.split(" | ", 1)
            rt = right.split(" ")
            if len(rt) == 5 and "," in rt[3]:
                rt[3] = ",".join(str(mp.get(int(c), int(c))) for c in rt[3].split(","))
                l = left + " | " + " ".join(rt)
        out.append(l)
    return out


def run_C20(tier, rng, chk):
    import os, subprocess, shutil
    res = []
    # (1) each build against the model instance for its character width; a divergence that the
    #     default build does not show at the same place is specific to that configuration
    hist = []
    for i in range(scale(tier, 60, 400)):
        gg = Gen(rng, heavy_special=(i % 2 == 0))
        hist.append(("c20_hist_%d" % i, gg.history(scale(tier, 120, 200), settings_rate=0.08, register="random")))
    hist += hammer_scripts(rng, tier, "c20_hammer", None, single_flag=False, n_scripts=(40, 250), n_ops=(100, 160))
    outs = {}
    for v in ("hu", "hn", "xu", "xn"):
        try:
            outs[v] = chk.run_stream(hist, prop="-", variant=v)
        except chk.BuildError as ex:
            res.append(fam("build %s" % v, [], None, counts={},
                           extra_violations=[{"kind": "build", "found_input": False, "family": "build " + v,
                                              "detail": "configuration %s does not build: %s" % (v, ex.detail[-1500:])}]))
    # a divergence from the model is not by itself a difference BETWEEN configurations (a change
    # to shared logic shows in all four); it is recorded as coverage, the decision is made by the
    # cross-build comparison below
    for v in ("hn", "xu", "xn"):
        if v not in outs:
            continue
        extra = []
        for c in outs[v]["crash"]:
            if not outs.get("hu", {"crash": []})["crash"]:
                extra.append({"kind": "crash", "detail": c, "family": "build %s vs model" % v, "found_input": False})
        res.append(fam("build %s vs the model for its character width" % v, hist, outs[v], variant=v, extra_violations=extra[:3]))
    if "hu" in outs:
        res.append(fam("build hu vs the unicode model (reference for the comparison above)", hist, outs["hu"], variant="hu"))
    # (2) cross-build identity on the implementation alone
    wd = os.path.join(chk.OUTDIR, "c20_%d" % os.getpid())
    os.makedirs(wd, exist_ok=True)
    cf_hist = [("c20_cf_%d" % i, collision_free_history(rng, scale(tier, 120, 200))) for i in range(scale(tier, 80, 500))]
    for i in range(scale(tier, 80, 500)):
        special = rng.choice([None, rng.randrange(0x7F, 0x100), rng.randrange(0x7F, 0x100)])
        pool = ([special] * 3 if special is not None else [0x20, 0x20]) + [0x41, 0x42, 0x7E, 0x0D, 0x1F, 0x00, 0x61]
        L = ["0 I %d" % rng.choice([0, 255])] + ["0 R %d 1" % f for f in (8, 9, 10)]
        for t in range(3):
            L += ["0 T %d 0 %d" % (t, rng.choice([0, 1, 2, 2])), "0 T %d 1 %d" % (t, rng.choice([0, 1, 2, 2])), "0 G %d %d" % (t, rng.randrange(2))]
        fl = rng.randrange(2)
        for _ in range(scale(tier, 100, 160)):
            if rng.random() < 0.03:
                L.append("0 C")
                continue
            if rng.random() < 0.08:
                fl ^= 1
            kind = rng.choice(["0A", "0B", "2A", "2B", "10A"])
            c = (rng.choice(pool) << 8) | rng.choice(pool)
            d = (rng.choice(pool) << 8) | rng.choice(pool)
            e = (0, rng.choice([0, 0, 1, 2, 3]), rng.choice([0, 0, 1, 2, 3]), rng.choice([0, 0, 1, 2, 3]))
            L.append(P(0, *text_group(rng, kind, rng.choice([0, 1]), fl, c, d), e))
        cf_hist.append(("c20_cfh_%d" % i, L))
    p = os.path.join(wd, "cf.script")
    streams.write_stream(p, cf_hist)
    traces = {}
    viol = []
    for v in ("hu", "hn", "xu", "xn"):
        try:
            hb = chk.ensure_harness(v)
        except chk.BuildError:
            continue
        pr = subprocess.run([hb, p], stdout=subprocess.PIPE, stderr=subprocess.PIPE, timeout=1200)
        traces[v] = pr.stdout.decode("utf-8", "replace")
    mp = narrow_map(chk)

    def first_diff(a, b):
        la = a if isinstance(a, list) else a.splitlines()
        lb = b if isinstance(b, list) else b.splitlines()
        for j in range(min(len(la), len(lb))):
            if la[j] != lb[j]:
                return j, la[j][:300], lb[j][:300]
        if len(la) != len(lb):
            return min(len(la), len(lb)), None, None
        return None
    pairs = [("hu", "xu", False), ("hn", "xn", False), ("hu", "hn", True), ("xu", "xn", True)]
    n_cmp = 0
    for a, b, nar in pairs:
        if a not in traces or b not in traces:
            continue
        n_cmp += 1
        ta = narrow_trace(traces[a], mp) if nar else traces[a]
        d = first_diff(ta, traces[b])
        if d is not None:
            # locate the script
            la = ta if isinstance(ta, list) else ta.splitlines()
            name = None
            for j in range(d[0], -1, -1):
                if j < len(la) and la[j].startswith("= "):
                    name = la[j][2:]
                    break
            viol.append({"kind": "crossbuild", "found_input": True, "family": "cross-build", "stream": cf_hist, "variant": b, "observer": "-",
                         "detail": {"script": name, "builds": [a, b], "line": d[0], a: d[1], b: d[2],
                                    "what": "identical call sequence, different trace in two configurations" + (" (after narrowing the characters)" if nar else "")}})
    res.append(fam("cross-build(identical collision-free histories on the 4 configurations: heap vs no-heap identical; unicode narrowed vs non-unicode identical)",
                   cf_hist, None, extra_violations=viol[:3],
                   counts={"evaluations": sum(len(l) for _, l in cf_hist) * len(traces), "observed": n_cmp, "scripts": len(cf_hist)},
                   extra_cov={"samples": [{"family": "cross-build", "script": cf_hist[0][0], "first_ops": cf_hist[0][1][:10]}]}))
    # (3) the known finding: a narrow collision (two stored characters that only the unicode build can tell apart)
    wit = ["0 I 0", "0 R 8 1", "0 T 0 1 2",
           P(0, 0x1000, mkB(0, 1), 0x1000, 0x8041), P(0, 0x1000, mkB(0, 1), 0x1000, 0x2041, (0, 0, 0, 1))]
    pw = os.path.join(wd, "wit.script")
    streams.write_stream(pw, [("c20_collision_witness", wit)])
    tw = {}
    for v in ("hu", "hn"):
        try:
            pr = subprocess.run([chk.ensure_harness(v), pw], stdout=subprocess.PIPE, stderr=subprocess.PIPE, timeout=120)
            tw[v] = pr.stdout.decode("utf-8", "replace")
        except chk.BuildError:
            pass
    if len(tw) == 2 and first_diff(narrow_trace(tw["hu"], mp), tw["hn"]) is not None:
        res.append(fam("narrow-collision witness (known finding)", [("c20_collision_witness", wit)], None, counts={"evaluations": len(wit) * 2, "observed": 1},
                       extra_violations=[{"kind": "crossbuild", "tag": "narrow-collision", "found_input": True, "family": "narrow-collision witness",
                                          "detail": {"script": "c20_collision_witness", "what": "levels and callbacks differ between unicode and non-unicode build after a narrow collision"}}]))
    shutil.rmtree(wd, ignore_errors=True)
    return res


# ---------------------------------------------------------------------------------------
FAMILIES = {
    "C01": run_C01, "C02": run_C02, "C03": run_C03, "C04": run_C04, "C05": run_C05, "C06": run_C06, "C07": run_C07,
    "C08": run_C08, "C09": run_C09, "C10": run_C10, "C11": run_C11, "C12": run_C12, "C13": run_C13,
    "C14": run_C14, "C15": run_C15, "C16": run_C16, "C17": run_C17, "C18": run_C18, "C19": run_C19, "C20": run_C20,
}


def run_property(prop, tier, rng, chk, coq_failed=False):
    f = FAMILIES.get(prop)
    if f is None:
        return []
    rounds = 1 if prop in SINGLE_ROUND else ROUNDS.get(tier, 1)
    out = []
    for rd in range(rounds):
        for r in f(tier, rng, chk):
            r["round"] = rd
            out.append(r)
    return out


def match_known(prop, violation, kf):
    """returns a description when the violation is one of the committed known findings"""
    for k in kf.get("known", []):
        if k.get("property") != prop:
            continue
        m = k.get("matcher", {})
        d = violation.get("detail")
        if m.get("kind") and m["kind"] != violation.get("kind"):
            continue
        if m.get("tag") and m["tag"] != violation.get("tag"):
            continue
        return k.get("what", "known finding")
    return None
